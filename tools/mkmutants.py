#!/usr/bin/env python3
"""Regenerates mutants/<ID>/<name>.patch from mutants/specs.py (string replacements on /repo files)."""
import difflib, os, sys
V = os.path.dirname(os.path.dirname(os.path.abspath(__file__)))
sys.path.insert(0, V)
from mutants.specs import SPECS

def main():
  bad = 0
  import glob
  for f in glob.glob(os.path.join(V, 'mutants', '*', '*.patch')):
    os.remove(f)
  for prop, name, edits in SPECS:
    out = []
    for (path, old, new) in edits:
      src = open(os.path.join('/repo', path)).read()
      if src.count(old) != 1:
        print(f'!! {prop}/{name}: pattern occurs {src.count(old)} times in {path}'); bad += 1; continue
      dst = src.replace(old, new)
      out += list(difflib.unified_diff(src.splitlines(True), dst.splitlines(True), 'a/' + path, 'b/' + path))
    d = os.path.join(V, 'mutants', prop); os.makedirs(d, exist_ok=True)
    open(os.path.join(d, name + '.patch'), 'w').write(''.join(out))
  print('wrote', len(SPECS), 'mutants;', bad, 'bad')
  return 1 if bad else 0

if __name__ == '__main__':
  sys.exit(main())
