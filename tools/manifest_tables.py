"""Tables from which tools/gen_manifest.py writes MANIFEST.json."""
PURE = 'every clause relates the result of one call to its arguments; no state survives between calls and no schedule, clock, I/O operation or injected fault can change an outcome, so there is nothing for a simulator to control (deciding it needs differential/property-based testing, a different technique) - DESIGN.md section 6 "Not applicable"'

CHECKS = {
  'C20': dict(engine='pipeworld', design='DESIGN.md section 6, C20',
    text='Seeded search over producer/consumer interleavings (baton-passing scheduler over the real PrefetchIterator code, pre-emption at every synchronisation call, source pull and, in line-level runs, every source line) and over source-failure positions, against the sequential iterator specification with bounded-step liveness; prefetch_to_device under source-failure injection; every delivered batch also goes through pad_shard_unpad. Sampling, not enumeration: evidence, not proof.',
    note='Trusted: sim/sched.py (SimCondition == threading.Condition semantics), the stub device transport, the jax compatibility shim. The pure reshape helpers (scan_in_dim, replicate, shard, stack_forest, onehot) have no schedule or fault dimension and are NOT decided here; pad_shard_unpad is exercised only as the consumer of the pipeline.',
    technique='deterministic simulation: seeded thread-schedule search + source fault injection vs sequential spec'),
}

CHECKS['C11'] = dict(engine='fsworld', design='DESIGN.md section 6, C11',
    text='Seeded search over save/restore histories on a simulated disk with a crash (optionally with a torn write) or an I/O error injected at a chosen file operation, exhaustive crash sweeps (every file operation x every torn variant) of sampled saves each followed by restart, post-crash checks, retry and a later save, and asynchronous saves whose worker-thread file operations interleave with the main thread under the seeded scheduler; oracles: from-scratch retention-policy model, old-or-new rule after interruption, byte-exact restore of every retained step, async == sync directory. The crash sweeps are exhaustive per sampled history; histories themselves are sampled.',
    note='Trusted: SimDisk/SimGFile stand-ins for os/shutil/open and tensorflow.io.gfile (differentially tested), the scheduler stand-in for concurrent.futures.thread, process-death crash model (no power-loss semantics). One open known finding (prefix ending in -, . or digit) is listed in known_findings.json.',
    technique='deterministic simulation: simulated disk with crash/torn-write/IO-error injection + crash-point sweeps + seeded async schedules vs retention model')

CHECKS['C15'] = dict(engine='valueworld', design='DESIGN.md section 6, C15',
    text='Seeded histories of FrozenDict API calls interleaved with injected foreign mutations of every plain dict the world holds (sources after freezing, unfreeze results, copy arguments, anything handed out); invariant after every operation: every FrozenDict ever created equals its birth-time deep copy and hashes as before. struct dataclasses: generated field layouts, replace/assign, pytree leaves, tree_map/vmap/grad reconstruction, jit retrace histories against a seen-keys model with a Python-side trace counter.',
    note='There is no scheduler or I/O behind this property; what simulation contributes is the history dimension (aliasing created by earlier calls, mutated later). Lists/arrays stored as leaves are shared by design and never mutated by the harness. Trusted: jax pytree registry and jit cache as the environment.',
    technique='deterministic simulation: seeded API-call histories with injected foreign mutations vs birth-snapshot invariant; jit trace-cache histories')

CHECKS['C03'] = dict(engine='nnxworld', design='DESIGN.md section 6, C03',
    text='Seeded edit/API histories on a heap of NNX object graphs (references to any existing object, so sharing, diamonds, self references and cycles arise on their own) mirrored by a pure-Python graph model; split with generated filters, merge in shuffled state order, state, graphdef, update, pop, clone, iter_graph are compared with the mirror, and after every op the canonical form (types, statics, Variable records, identity classes) and the object identities of every root are compared with the mirror, with gc events in between.',
    note='No scheduler or I/O exists behind this property; simulation contributes the history dimension (aliasing created by earlier edits), gc instants and identity checks. Plain list/dict/tuple containers are never aliased (NNX treats them as value-like pytrees); pop is not generated for shared Variables or Variables directly inside containers.',
    technique='deterministic simulation: seeded aliasing/edit histories vs pure-Python graph mirror (canonical form + identity)')

CHECKS['C01'] = dict(engine='linenworld', design='DESIGN.md section 6, C01',
    text='Seeded call histories on long-lived Linen module instances, variable dicts and RNG dicts (init, init_with_output, apply under every form of mutable filter, bind/unbind, functional core), with injected faults: an exception raised at callback event e inside a module body (half-written variables, pushed scopes, deep module stack), an unguarded write to a collection outside the filter, gc events. Oracles: deep snapshot (structure, container identities, bytes) of every world object before == after each call whether it returned or raised; memo model of repeated calls across the whole history (also after aborted calls); returned-collections rule computed by the harness\'s own filter evaluator; ModifyScopeVariableError rule; observation features leave the primary output byte-identical. Violations that depend on state leaked by earlier histories of the same process are confirmed in a fresh interpreter with the preceding runs as prelude.',
    note='Module bodies are interpreters over generated program specs running inside real nn.Module subclasses. Thread isolation is not asserted. Fault injection is at callback boundaries only.',
    technique='deterministic simulation: seeded call histories with exception injection at callback events vs snapshot / memo / filter models')

CHECKS['C09'] = dict(engine='nnxworld+linenworld', design='DESIGN.md section 6, C09',
    text='Both RNG systems are counters, so which key comes out depends on the history of earlier draws. NNX: seeded histories of draws, split_rngs (call and context manager, with the body raising), restore_rngs, reseed, draws inside nnx.jit and nnx.vmap, clone, against a counter model of streams plus a run-global no-reuse set. Linen: every key handed to make_rng and to parameter initialisers by generated programs is compared with an independent model of the derivation (seed, stream or params fallback, module path, per-scope count; both settings of the separator flag), keys of one call are pairwise distinct, and keys at surviving positions are unchanged after program edits.',
    note='Trusted: jax.random.key/fold_in/split/key_data. Module paths are taken from Module.path. Distinctness is demanded modulo the 32-bit truncation of the derivation itself.',
    technique='deterministic simulation: seeded draw/split/restore/reseed histories and program-edit histories vs counter and key-derivation models')

CHECKS['C05'] = dict(engine='linenworld-twins', design='DESIGN.md section 6, C05',
    text='Twin programs: the same generated spec is interpreted plain (Python if / index / while; no transform) and lifted (nn.jit class and method forms, nn.remat, identity nn.map_variables, nn.cond, nn.switch, nn.while_loop). One set of lifted classes lives for a whole seeded history of init/apply calls while the things the trace-cache fingerprint must notice change between calls (an integer attribute of the lifted child, the structure of the variables passed in, the mutable filter, predicate / index / trip count), calls are repeated (cache hits), and some calls are aborted by an exception injected at a callback event inside the lifted body before the next cache lookup. Outputs, returned collections, init trees and error classes of the twins are compared bytewise.',
    note='The plain twin (real flax code without the transform) is the reference; if both twins are wrong alike the check is silent. Under nn.jit RNG-derived values are only checked for determinism (what the property promises). Two open known findings (map_variables(init=True) runs the body twice; cond/switch branches share RNG counters) are listed in known_findings.json and avoided by the generator in most histories. XLA compilation bounds throughput (~600 histories per quick run).',
    technique='deterministic simulation: seeded call histories over trace caches, plain-vs-lifted twin programs, exception injection inside traced bodies')

CHECKS['C17'] = dict(engine='nnxworld', design='DESIGN.md section 6, C17',
    text='Seeded histories of gradient steps on nnx.Optimizer(wrt=filter), nnx.TrainState and flax TrainState over model graphs grown by the heap ops (sharing included) and an optax menu (sgd, momentum, adam, adamw, chain(clip, sgd), schedule, MultiSteps), eagerly and under jit alternating on one object, interleaved with edits of Variables outside wrt; after every step parameters, optimizer state and step are compared with the hand-written optax loop on copies and everything outside wrt with the mirror (canonical form + identity). Metrics (Average, Accuracy, Welford, MultiMetric): a generated value stream cut into batches at generated points with resets, eagerly or under nnx.jit, against float64 NumPy statistics and against another partition of the same stream.',
    note='These are deterministic folds; the simulator contributes only the history dimension (step sequences, batch partitions, resets, jit/eager alternation on one object). optax is the trusted base. rtol 1e-5 where the arithmetic under test is inexact (Adam, Welford, jit-vs-eager), bytes otherwise. No exception faults: the property says nothing about a failed update.',
    technique='deterministic simulation: seeded step / batch-partition histories vs hand-written optax loop and NumPy statistics')

CHECKS['C18'] = dict(engine='bridgeworld', design='DESIGN.md section 6, C18',
    text='Seeded call sequences on stateful bridge wrappers. ToNNX over generated Linen programs (params incl. partitioned ones, counters and running statistics in several collections, RNG draws, nested submodules), optionally inside an NNX parent: lazy_init, calls with changing mutable lists, split/merge round trips of the wrapper, direct Linen<->NNX variable conversion round trips, and calls aborted by an exception injected inside the wrapped module; after every call output and wrapper state are compared bytewise with the wrapped Linen module applied to the variables the harness extracts from the wrapper with the keys the wrapper drew, and collections must sit under the matching Variable types with names and sharding metadata intact. ToLinen over NNX classes (Param, BatchStat counter, RNG, sharding metadata), optionally inside a Linen parent: init/apply sequences against the NNX module rebuilt from graphdef + state.',
    note='The wrapped module itself is the reference. Nothing is asserted about the wrapper Rngs after a failed call. Two genuine defects found by this check were repaired in /repo (fix: commits 3fdf8e2, 920d13a).',
    technique='deterministic simulation: seeded call sequences on stateful wrappers with exception injection vs the wrapped module as reference')

NA = {
  'C02': 'variable tree mirrors module tree: relation between stateless init/apply/lazy_init/bind results on the same arguments; ' + PURE,
  'C06': 'lifted scan/vmap = loop/stack: configuration-space equivalence of a pure function; ' + PURE,
  'C07': 'lifted vjp/jvp/grad = JAX autodiff of apply: configuration-space equivalence of a pure function; ' + PURE,
  'C08': 'NNX vmap/scan/grad: a single call\'s input->output/state relation over a configuration space, no call-history clause; ' + PURE,
  'C10': 'msgpack round trip works on whole in-memory buffers, no stream, partial read or storage under it (the real serializer runs inside C11\'s simulated store with a randomised chunk threshold); ' + PURE,
  'C12': 'layer formulas: numeric relations of pure layer functions; ' + PURE,
  'C13': 'attention/RNN stepwise = whole sequence, mask inertness: numeric relations of pure layer functions (the decode cache is a deterministic fold over the sequence itself); ' + PURE,
  'C14': 'filter algebra: finite and purely algebraic, exhaustive enumeration is the right tool; ' + PURE,
  'C16': 'flatten/unflatten and State set laws: inverse laws of pure functions; ' + PURE,
  'C19': 'partition metadata alignment: pure metadata transformation; ' + PURE,
}

# claimed in DESIGN.md, check not built yet (moved to CHECKS as each engine lands)
_P = 'planned as a claimed check in DESIGN.md section 6 but its engine is not built yet in this commit; not claimed until it runs'
PENDING = {p: _P for p in ['C04']}

ENGINES = [
  dict(name='kernel', path='sim/kernel.py', serves_properties=['C01', 'C03', 'C05', 'C09', 'C11', 'C15', 'C17', 'C18', 'C20'], kind_free_text='seed -> JSON plan -> event-log digest; worker processes; ddmin shrinker; replay; evidence'),
  dict(name='sched', path='sim/sched.py', serves_properties=['C11', 'C20'], kind_free_text='baton-passing deterministic thread scheduler; stand-ins for threading and concurrent.futures.thread'),
  dict(name='disk', path='sim/disk.py', serves_properties=['C11'], kind_free_text='in-memory disk with crash / torn-write / I/O-error injection; stand-ins for os, shutil, open, glob and tensorflow.io.gfile'),
  dict(name='fsworld', path='sim/props/c11.py', serves_properties=['C11'], kind_free_text='checkpoint directory histories with crashes, restarts, retries, sweeps and async saves against a retention-policy model'),
  dict(name='valueworld', path='sim/props/c15.py', serves_properties=['C15'], kind_free_text='FrozenDict / struct dataclass call histories with foreign mutations and jit retrace histories'),
  dict(name='nnxworld', path='sim/nnxworld.py', serves_properties=['C03', 'C17'], kind_free_text='heap of NNX object graphs + pure-Python mirror, canonical form, filters, build ops'),
  dict(name='programs', path='sim/programs.py', serves_properties=['C01', 'C05', 'C09', 'C18'], kind_free_text='Linen program specs compiled to real nn.Module classes; callback-event fault controller; key recorder'),
  dict(name='linenworld', path='sim/props/c01.py', serves_properties=['C01'], kind_free_text='Linen call histories with fault injection against snapshot/memo/filter models'),
  dict(name='pipeworld', path='sim/props/c20.py', serves_properties=['C20'], kind_free_text='source -> PrefetchIterator / prefetch_to_device -> consumer under the thread scheduler with source fault injection'),
]

NOTES = 'Technique family: deterministic simulation with fault injection. ./check <ID> quick|thorough honours VERIF_SEED; ./check --replay <file> re-executes a minimised plan in a fresh interpreter; ./check --selftest <ID> proves determinism (same seeds, different processes / worker counts / PYTHONHASHSEED); ./check --mutants <ID> proves sensitivity on mutants/ and seeded/. Two genuine defects found by C20 were repaired in /repo as fix: commits (see known_findings.json "fixed").'
