#!/usr/bin/env python3
"""Writes /verif/MANIFEST.json from the tables below and validates it against the schema."""
import json, os, sys
V = os.path.dirname(os.path.dirname(os.path.abspath(__file__)))
BASE = "cd /repo && /venv/bin/python -m pytest -ra -q -p no:cacheprovider --timeout=900 --continue-on-collection-errors"

CHECKS = {
  'C20': dict(engine='pipeworld', design='DESIGN.md section 6, C20',
    text='Seeded search over producer/consumer interleavings (baton-passing scheduler over the real PrefetchIterator code, pre-emption at every synchronisation call, source pull and, in line-level runs, every source line) and over source-failure positions, against the sequential iterator specification with bounded-step liveness; prefetch_to_device under source-failure injection; every delivered batch also goes through pad_shard_unpad. Sampling, not enumeration: evidence, not proof.',
    note='Trusted: sim/sched.py (SimCondition == threading.Condition semantics), the stub device transport, the jax compatibility shim. The pure reshape helpers (scan_in_dim, replicate, shard, stack_forest, onehot) have no schedule or fault dimension and are NOT decided here; pad_shard_unpad is exercised only as the consumer of the pipeline.',
    technique='deterministic simulation: seeded thread-schedule search + source fault injection vs sequential spec'),
}

NA = {}

PENDING = {}

def main():
  props = [json.loads(l) for l in open(os.path.join(V, 'properties.jsonl'))]
  sys.path.insert(0, V)
  from tools import manifest_tables as T
  checks = []
  for pid, c in T.CHECKS.items():
    checks.append(dict(
      property_id=pid,
      quick_cmd=f'./check {pid} quick',
      thorough_cmd=f'./check {pid} thorough',
      evidence_file=f'/verif/evidence/{pid}.json',
      replay_cmd_template='./check --replay {path}',
      engine=c['engine'],
      level_claimed=dict(category='exploration', text=c['text'], design_ref=c['design']),
      level_note=c['note'],
      technique=c['technique'],
    ))
  na = [dict(property_id=p, reason=r) for p, r in sorted({**T.NA, **T.PENDING}.items())]
  ids = {p['id'] for p in props}
  assert ids == set(T.CHECKS) | set(T.NA) | set(T.PENDING), ids ^ (set(T.CHECKS) | set(T.NA) | set(T.PENDING))
  m = dict(
    version=1,
    setup_cmd='./check --setup',
    hooks=dict(guard='FLAX_VERIF', enable='no hooks are needed: every seam is a module global replaced from the harness (DESIGN.md section 4); FLAX_VERIF is reserved and unused', baseline_off_cmd=BASE, source_commits=[], add_only=True),
    engines=T.ENGINES,
    checks=checks,
    not_applicable=na,
    notes=T.NOTES,
  )
  json.dump(m, open(os.path.join(V, 'MANIFEST.json'), 'w'), indent=1)
  try:
    import jsonschema
    jsonschema.validate(m, json.load(open('/root/.vp/MANIFEST.schema.json')))
    print('MANIFEST.json valid;', len(checks), 'checks,', len(na), 'not applicable')
  except ImportError:
    print('jsonschema not available; wrote without validating')

if __name__ == '__main__':
  main()
