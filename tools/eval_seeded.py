#!/usr/bin/env python3
"""Confirms a seeded change produced by a sub-agent and files it under /verif/seeded/<id>/.

  tools/eval_seeded.py <PROP> <src_dir> <id> [--skip-suite]

Steps (all in a scratch worktree outside /repo and /verif, removed afterwards):
  1. patch applies to /repo's HEAD;  2. demo passes on /repo and fails on the patched tree;
  3. the pinned baseline suite still passes on the patched tree (the 427 stable tests);
  4. files patch.diff, demo.py, notes.md, meta.json under /verif/seeded/<id>/.
Detection by the checks is evaluated separately with `./check --mutants <PROP> seeded/<id>`.
"""
import json, os, shutil, subprocess, sys, xml.etree.ElementTree as ET

def sh(cmd, **kw):
  return subprocess.run(cmd, shell=True, capture_output=True, text=True, **kw)

def main():
  prop, src, sid = sys.argv[1:4]
  skip_suite = '--skip-suite' in sys.argv
  wt = f'/tmp/ev-{sid}'
  sh(f'git -C /repo worktree remove --force {wt}')
  r = sh(f'git -C /repo worktree add -q --detach {wt} HEAD')
  assert r.returncode == 0, r.stderr
  out = dict(property=prop, id=sid)
  try:
    r = sh(f'git -C {wt} apply {src}/patch.diff')
    out['applies'] = r.returncode == 0
    if not out['applies']:
      out['error'] = r.stderr[-500:]
      return out
    env = dict(os.environ, JAX_PLATFORMS='cpu', TF_CPP_MIN_LOG_LEVEL='3')
    a = sh(f'timeout 600 /venv/bin/python {src}/demo.py /repo', env=env)
    b = sh(f'timeout 600 /venv/bin/python {src}/demo.py {wt}', env=env)
    out['demo_unpatched_rc'] = a.returncode
    out['demo_patched_rc'] = b.returncode
    out['demo_ok'] = a.returncode == 0 and b.returncode != 0
    if not skip_suite:
      junit = f'/tmp/ev-{sid}.xml'
      env2 = dict(env, PYTHONPATH=wt)
      t = sh(f'cd {wt} && timeout 3000 /venv/bin/python -m pytest -q -p no:cacheprovider --timeout=900 --continue-on-collection-errors --junitxml={junit} 2>&1 | tail -1', env=env2)
      stable = set(json.load(open('/root/.vp/BASELINE.json'))['stable_pass'])
      res = {}
      for tc in ET.parse(junit).iter('testcase'):
        res[f"{tc.get('classname')}::{tc.get('name')}"] = not any(c.tag in ('failure', 'error', 'skipped') for c in tc)
      failing = sorted(s for s in stable if not res.get(s, False))
      out['suite_tail'] = t.stdout.strip()[-200:]
      out['stable_failing'] = failing[:10]
      out['suite_ok'] = not failing
      os.remove(junit)
    dst = f'/verif/seeded/{sid}'
    os.makedirs(dst, exist_ok=True)
    for f in ('patch.diff', 'demo.py', 'notes.md'):
      if os.path.exists(f'{src}/{f}'):
        shutil.copy(f'{src}/{f}', f'{dst}/{f}')
    # the agents' demos import the jax alias shim from their /tmp hand-in directory; the filed copy uses seeded/compat.py
    dp = f'{dst}/demo.py'
    if os.path.exists(dp):
      import re
      txt = open(dp).read()
      txt = re.sub(r"""sys\.path\.insert\(0,\s*['"]/tmp/seeded-out\d*['"]\)""", "sys.path.insert(0, __import__('os').path.dirname(__import__('os').path.dirname(__import__('os').path.abspath(__file__))))", txt)
      open(dp, 'w').write(txt)
    notes = open(f'{src}/notes.md').read() if os.path.exists(f'{src}/notes.md') else ''
    meta = dict(property=prop, id=sid, source='independent sub-agent given only the property text and a scratch worktree',
                needs_to_manifest=notes[:1500], confirmed=dict(patch_applies=out['applies'], demo_passes_unpatched=a.returncode == 0, demo_fails_patched=b.returncode != 0, baseline_suite_still_passes=out.get('suite_ok')),
                ran=[f'git apply patch.diff (scratch worktree of /repo HEAD)', 'demo.py /repo ; demo.py <patched tree>', 'baseline pytest command from /root/.vp/BASELINE.json with PYTHONPATH=<patched tree>', f'./check --mutants {prop} seeded/{sid}'])
    json.dump(meta, open(f'{dst}/meta.json', 'w'), indent=1)
    return out
  finally:
    sh(f'git -C /repo worktree remove --force {wt}')

if __name__ == '__main__':
  print(json.dumps(main()))
