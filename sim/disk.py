"""In-memory simulated disk with crash / torn-write / I/O-error injection (DESIGN.md section 4).

SimDisk holds files and directories.  SimOS / SimShutil / sim_open / SimGlob
stand in for the module globals `os`, `shutil`, `open`, `glob_module` of
flax/io.py (io_mode DEFAULT); SimGFile stands in for `flax.io.gfile`
(io_mode TF) and raises the real tf.errors classes.

Crash model: the PROCESS dies.  Every operation that returned has happened; the
operation in flight either did not happen or, for a write, left a prefix.  After
the crash instant the disk is frozen: every further mutating operation raises
SimCrash again and has no effect (so `finally` blocks cannot repair anything).
"""
from __future__ import annotations

import errno
import fnmatch
import io as _io
import posixpath
import random


class SimCrash(BaseException):
  """The simulated process died at a file operation."""


class SimDisk:
  def __init__(self, listdir_seed=0):
    self.files = {}  # path -> bytes
    self.dirs = {'/'}
    self.ops = 0  # mutating operations since the beginning
    self.base = 0
    self.fault = None  # dict(kind='crash'|'ioerror', at=k, torn=frac|None, err='EIO'|'ENOSPC')
    self.frozen = False
    self.fired = None
    self.oplog = []
    self.mode = 'DEFAULT'
    self.sched = None
    self.ld_rng = random.Random(listdir_seed)
    self.reads = 0
    self.err_factory = None

  # -- bookkeeping
  def clone(self):
    d = SimDisk()
    d.files = dict(self.files)
    d.dirs = set(self.dirs)
    d.mode = self.mode
    d.ld_rng.setstate(self.ld_rng.getstate())
    d.err_factory = self.err_factory
    return d

  def window(self, fault=None):
    """Start counting mutating operations for the save about to run."""
    self.base = self.ops
    self.fault = fault
    self.fired = None
    self.oplog = []

  def restart(self):
    self.frozen = False
    self.fault = None

  def norm(self, p):
    p = str(p)
    p = posixpath.normpath(p if p.startswith('/') else '/' + p)
    return p

  def _yield(self, what):
    s = self.sched
    if s is not None and len(s.tasks) > 1:
      s.yield_('disk:' + what)

  def tick(self, kind, path, data=None):
    """A mutating operation is about to happen.  Returns None, or raises; for writes may return a truncated length."""
    if self.frozen:
      raise SimCrash('frozen')
    self._yield(kind)
    if self.frozen:  # another task crashed the process while this one was parked
      raise SimCrash('frozen')
    i = self.ops - self.base
    self.ops += 1
    self.oplog.append((kind, posixpath.basename(path)))
    f = self.fault
    if f is not None and f['at'] == i:
      self.fired = dict(f, op=kind, name=posixpath.basename(path), index=i)
      if f['kind'] == 'crash':
        self.frozen = True
        if kind in ('write', 'flush') and data is not None and f.get('torn') is not None:
          n = _torn_len(len(data), f['torn'])
          self.files[path] = self.files.get(path, b'') + bytes(data[:n])
          self.fired['torn_bytes'] = n
        raise SimCrash(f'crash at op {i} {kind} {path}')
      else:
        self.fault = None
        if kind in ('write', 'flush') and data is not None and f.get('torn') is not None:
          n = _torn_len(len(data), f['torn'])
          self.files[path] = self.files.get(path, b'') + bytes(data[:n])
          self.fired['torn_bytes'] = n
        raise self.err_factory(f.get('err', 'EIO'), path)
    return None

  # -- primitive operations (shared by both façades)
  def exists(self, p):
    p = self.norm(p)
    return p in self.files or p in self.dirs

  def isdir(self, p):
    return self.norm(p) in self.dirs

  def children(self, p):
    p = self.norm(p)
    pre = p.rstrip('/') + '/'
    out = set()
    for q in list(self.files) + list(self.dirs):
      if q.startswith(pre) and q != p:
        out.add(q[len(pre) :].split('/')[0])
    out = sorted(out)
    self.ld_rng.shuffle(out)  # directory order is arbitrary on real file systems
    return out

  def mkdirs(self, p):
    p = self.norm(p)
    cur = ''
    for part in [x for x in p.split('/') if x]:
      cur += '/' + part
      if cur in self.files:
        if cur == p:
          raise FileExistsError(errno.EEXIST, 'File exists', cur)
        raise NotADirectoryError(errno.ENOTDIR, 'Not a directory', p)
      if cur not in self.dirs:
        self.tick('mkdir', cur)
        self.dirs.add(cur)

  def create(self, p):
    p = self.norm(p)
    self._parents(p)
    if posixpath.dirname(p) not in self.dirs:
      raise FileNotFoundError(errno.ENOENT, 'No such file or directory', p)
    if p in self.dirs:
      raise IsADirectoryError(errno.EISDIR, 'Is a directory', p)
    self.tick('create', p)
    self.files[p] = b''

  def append(self, p, data, kind='write'):
    p = self.norm(p)
    self.tick(kind, p, data)
    self.files[p] = self.files.get(p, b'') + bytes(data)

  def rename(self, a, b):
    a, b = self.norm(a), self.norm(b)
    self._parents(b)
    if (a in self.files or a in self.dirs) and posixpath.dirname(b) not in self.dirs:
      raise FileNotFoundError(errno.ENOENT, 'No such file or directory', b)
    if a in self.files:
      if b in self.dirs:
        raise IsADirectoryError(errno.EISDIR, 'Is a directory', b)
      self.tick('rename', b)
      self.files[b] = self.files.pop(a)
    elif a in self.dirs:
      if b in self.files:
        raise NotADirectoryError(errno.ENOTDIR, 'Not a directory', b)
      if b in self.dirs and self.children(b):
        raise OSError(errno.ENOTEMPTY, 'Directory not empty', b)
      self.tick('rename', b)
      pre = a + '/'
      for q in [q for q in self.files if q.startswith(pre)]:
        self.files[b + '/' + q[len(pre) :]] = self.files.pop(q)
      for q in [q for q in self.dirs if q == a or q.startswith(pre)]:
        self.dirs.discard(q)
        self.dirs.add(b + q[len(a) :])
    else:
      raise FileNotFoundError(errno.ENOENT, 'No such file or directory', a)

  def remove(self, p):
    p = self.norm(p)
    self._parents(p)
    if p in self.dirs:
      raise IsADirectoryError(errno.EISDIR, 'Is a directory', p)
    if p not in self.files:
      raise FileNotFoundError(errno.ENOENT, 'No such file or directory', p)
    self.tick('remove', p)
    del self.files[p]

  def rmtree(self, p):
    """Recursive delete, one operation per entry, children first (a crash can leave a partial tree)."""
    p = self.norm(p)
    if p in self.files:
      self.tick('remove', p)
      del self.files[p]
      return
    if p not in self.dirs:
      raise FileNotFoundError(errno.ENOENT, 'No such file or directory', p)
    pre = p + '/'
    for q in sorted(q for q in self.files if q.startswith(pre)):
      self.tick('remove', q)
      del self.files[q]
    for q in sorted((q for q in self.dirs if q.startswith(pre)), key=lambda x: -len(x)):
      self.tick('rmdir', q)
      self.dirs.discard(q)
    self.tick('rmdir', p)
    self.dirs.discard(p)

  def _parents(self, p):
    """ENOTDIR when a path component is a regular file."""
    cur = ''
    for part in [x for x in p.split('/') if x][:-1]:
      cur += '/' + part
      if cur in self.files:
        raise NotADirectoryError(errno.ENOTDIR, 'Not a directory', p)

  def read(self, p):
    p = self.norm(p)
    self._parents(p)
    if p in self.dirs:
      raise IsADirectoryError(errno.EISDIR, 'Is a directory', p)
    if p not in self.files:
      raise FileNotFoundError(errno.ENOENT, 'No such file or directory', p)
    self.reads += 1
    return self.files[p]


def _torn_len(n, torn):
  if torn == 'one':
    return min(1, n)
  if torn == 'allbutone':
    return max(0, n - 1)
  return int(n * float(torn))


def os_error(err, path):
  code = getattr(errno, err)
  return OSError(code, {'EIO': 'Input/output error', 'ENOSPC': 'No space left on device'}.get(err, err), path)


# --------------------------------------------------------------------------
# io_mode DEFAULT: os / shutil / open / glob


class _WFile:
  """Write handle.  Python's open(.., 'wb') hands large writes straight to the OS: one op per write."""

  def __init__(self, disk, path, append=False, text=False, buffered=False):
    self.d, self.p, self.text, self.buffered = disk, disk.norm(path), text, buffered
    self.buf = b''
    self.closed = False
    if not append or self.p not in disk.files:
      disk.create(self.p)

  def write(self, b):
    if self.text and isinstance(b, str):
      b = b.encode('utf-8')
    b = bytes(b)
    if self.buffered:
      self.buf += b
    else:
      self.d.append(self.p, b)
    return len(b)

  def flush(self):
    if self.buf:
      b, self.buf = self.buf, b''
      self.d.append(self.p, b, kind='flush')

  def close(self):
    if not self.closed:
      self.closed = True
      self.flush()

  def seekable(self):
    return True

  def writable(self):
    return True

  def __enter__(self):
    return self

  def __exit__(self, *a):
    self.close()
    return False


class _RFile(_io.BytesIO):
  def __init__(self, data, text=False):
    super().__init__(data)
    self._text = text

  def read(self, n=-1):
    if n is None:
      n = -1
    b = super().read(n)
    return b.decode('utf-8') if self._text else b


def make_open(disk):
  def sim_open(name, mode='r', encoding=None, **kw):
    text = 'b' not in mode
    if 'r' in mode and '+' not in mode:
      return _RFile(disk.read(name), text)
    return _WFile(disk, name, append='a' in mode, text=text)

  return sim_open


class _SimPath:
  def __init__(self, d):
    self._d = d

  def exists(self, p):
    return self._d.exists(p)

  def isdir(self, p):
    return self._d.isdir(p)

  def isfile(self, p):
    return self._d.norm(p) in self._d.files

  def getsize(self, p):
    p = self._d.norm(p)
    if p in self._d.dirs:
      return 4096
    if p not in self._d.files:
      raise FileNotFoundError(errno.ENOENT, 'No such file or directory', p)
    return len(self._d.files[p])

  def __getattr__(self, n):
    return getattr(posixpath, n)


class SimOS:
  sep = '/'

  def __init__(self, disk):
    self._d = disk
    self.path = _SimPath(disk)

  def listdir(self, path='.'):
    p = self._d.norm(path)
    self._d._parents(p)
    if p in self._d.files:
      raise NotADirectoryError(errno.ENOTDIR, 'Not a directory', p)
    if p not in self._d.dirs:
      raise FileNotFoundError(errno.ENOENT, 'No such file or directory', p)
    return self._d.children(p)

  def makedirs(self, path, mode=0o777, exist_ok=False):
    p = self._d.norm(path)
    if p in self._d.dirs:
      if not exist_ok:
        raise FileExistsError(errno.EEXIST, 'File exists', p)
      return
    self._d.mkdirs(p)

  def rename(self, a, b):
    self._d.rename(a, b)

  replace = rename

  def remove(self, p):
    self._d.remove(p)

  unlink = remove

  def fspath(self, p):
    import os

    return os.fspath(p)


class SimShutil:
  def __init__(self, disk):
    self._d = disk

  def rmtree(self, p, ignore_errors=False):
    q = self._d.norm(p)
    if q in self._d.files:
      raise NotADirectoryError(errno.ENOTDIR, 'Not a directory', q)
    self._d.rmtree(q)

  def copy(self, a, b):
    data = self._d.read(a)
    b = self._d.norm(b)
    if b in self._d.dirs:
      b = b + '/' + posixpath.basename(self._d.norm(a))
    self._d.create(b)
    self._d.append(b, data)


class SimGlob:
  def __init__(self, disk):
    self._d = disk

  def glob(self, pattern, recursive=False):
    d = self._d
    pat = d.norm(pattern)
    allp = sorted(set(d.files) | set(d.dirs))
    return [p for p in allp if fnmatch.fnmatchcase(p, pat) and p.count('/') == pat.count('/')]


# --------------------------------------------------------------------------
# io_mode TF: tensorflow.io.gfile façade (semantics observed on this image: notes/gfile_semantics_observed.txt)


class SimGFile:
  def __init__(self, disk, tf_errors):
    self._d = disk
    self._e = tf_errors

  def _nf(self, p):
    return self._e.NotFoundError(None, None, f'{p}; No such file or directory')

  def GFile(self, name, mode='r'):
    d = self._d
    text = 'b' not in mode
    if 'r' in mode:
      p = d.norm(name)
      if p not in d.files:
        if p in d.dirs:
          raise self._e.FailedPreconditionError(None, None, f'{p}; Is a directory')
        raise self._nf(p)
      return _RFile(d.read(p), text)
    try:
      # bytes appear on disk at flush/close
      return _WFile(d, name, append='a' in mode, text=text, buffered=True)
    except FileNotFoundError:
      raise self._nf(name) from None
    except IsADirectoryError:
      raise self._e.FailedPreconditionError(None, None, f'{name}; Is a directory') from None

  def listdir(self, path):
    p = self._d.norm(path)
    self._d._parents(p)
    if p in self._d.files:
      raise self._e.FailedPreconditionError(None, None, f'{p}; Not a directory')
    if p not in self._d.dirs:
      raise self._nf(p)
    return self._d.children(p)

  def isdir(self, path):
    return self._d.isdir(path)

  def exists(self, path):
    return self._d.exists(path)

  def makedirs(self, path):
    try:
      self._d.mkdirs(path)
    except FileExistsError:
      raise self._e.AlreadyExistsError(None, None, f'{path}; File exists') from None

  def rename(self, src, dst, overwrite=False):
    d = self._d
    if not d.exists(src):
      raise self._nf(src)
    if d.exists(dst) and not overwrite:
      raise self._e.AlreadyExistsError(None, None, f'file already exists: {dst}')
    try:
      d.rename(src, dst)
    except FileNotFoundError:
      raise self._nf(dst) from None
    except (IsADirectoryError, NotADirectoryError, OSError) as e:
      if isinstance(e, SimCrash):
        raise
      raise self._e.FailedPreconditionError(None, None, str(e)) from None

  def copy(self, src, dst, overwrite=False):
    d = self._d
    if d.exists(dst) and not overwrite:
      raise self._e.AlreadyExistsError(None, None, f'file already exists: {dst}')
    data = d.read(src)
    d.create(dst)
    d.append(dst, data)

  def remove(self, path):
    d = self._d
    p = d.norm(path)
    d._parents(p)
    if p in d.dirs:
      raise self._e.FailedPreconditionError(None, None, f'{p}; Is a directory')
    if p not in d.files:
      raise self._nf(p)
    d.remove(p)

  def rmtree(self, path):
    d = self._d
    if not d.exists(path):
      raise self._nf(path)
    d.rmtree(path)

  def glob(self, pattern):
    return SimGlob(self._d).glob(pattern)

  class _Stat:
    def __init__(self, length, is_directory):
      self.length = length
      self.is_directory = is_directory

  def stat(self, path):
    d = self._d
    p = d.norm(path)
    if p in d.dirs:
      return SimGFile._Stat(4096, True)
    if p not in d.files:
      raise self._nf(p)
    return SimGFile._Stat(len(d.files[p]), False)


def _wrap_notdir(cls):
  """gfile reports ENOTDIR situations (a path component is a regular file) as FailedPreconditionError."""
  import functools

  for name in ('GFile', 'listdir', 'makedirs', 'rename', 'copy', 'remove', 'rmtree', 'stat'):
    fn = getattr(cls, name)

    def make(fn):
      @functools.wraps(fn)
      def w(self, *a, **k):
        try:
          return fn(self, *a, **k)
        except NotADirectoryError as e:
          raise self._e.FailedPreconditionError(None, None, str(e)) from None

      return w

    setattr(cls, name, make(fn))


_wrap_notdir(SimGFile)


def tf_error_factory(tf_errors):
  def mk(err, path):
    if err == 'ENOSPC':
      return tf_errors.ResourceExhaustedError(None, None, f'{path}; No space left on device')
    return tf_errors.UnknownError(None, None, f'{path}; Input/output error')

  return mk


def install(fio, disk, mode, tf_errors=None):
  """Point flax.io's module globals at `disk`.  Returns a restore() closure."""
  saved = dict(os=fio.os, shutil=fio.shutil, glob_module=fio.glob_module, gfile=fio.gfile, io_mode=fio.io_mode, NotFoundError=fio.NotFoundError, open=fio.__dict__.get('open', None))
  disk.mode = mode
  if mode == 'TF':
    fio.gfile = SimGFile(disk, tf_errors)
    fio.io_mode = fio.BackendMode.TF
    fio.NotFoundError = tf_errors.NotFoundError
    disk.err_factory = tf_error_factory(tf_errors)
  else:
    fio.os = SimOS(disk)
    fio.shutil = SimShutil(disk)
    fio.glob_module = SimGlob(disk)
    fio.open = make_open(disk)
    fio.io_mode = fio.BackendMode.DEFAULT
    fio.NotFoundError = FileNotFoundError  # what `import flax.io` binds when tensorflow is not installed
    disk.err_factory = os_error

  def restore():
    for k, v in saved.items():
      if k == 'open':
        if v is None:
          fio.__dict__.pop('open', None)
        else:
          fio.open = v
      else:
        setattr(fio, k, v)

  return restore


# --------------------------------------------------------------------------
# store interface used by the engines (same on SimDisk and RealDisk)


def _sim_install(self, fio, mode, tf_errors):
  return install(fio, self, mode, tf_errors)


def _sim_listdir(self, path):
  p = self.norm(path)
  if p not in self.dirs:
    return []
  return sorted(self.children(p))


def _sim_snapshot(self):
  return (dict(self.files), frozenset(self.dirs))


def _sim_get_file(self, path):
  return self.files.get(self.norm(path))


def _sim_put_file(self, path, data):
  p = self.norm(path)
  cur = ''
  for part in [x for x in posixpath.dirname(p).split('/') if x]:
    cur += '/' + part
    self.dirs.add(cur)
  self.files[p] = data


def _sim_put_dir(self, path):
  p = self.norm(path)
  cur = ''
  for part in [x for x in p.split('/') if x]:
    cur += '/' + part
    self.dirs.add(cur)


SimDisk.install = _sim_install
SimDisk.listdir = _sim_listdir
SimDisk.snapshot = _sim_snapshot
SimDisk.get_file = _sim_get_file
SimDisk.put_file = _sim_put_file
SimDisk.put_dir = _sim_put_dir
SimDisk.map = lambda self, p: p
SimDisk.dispose = lambda self: None
SimDisk.quiesce = lambda self: None
SimDisk.real = False


# --------------------------------------------------------------------------
# real scratch directory under CPython's audit-hook seam (Orbax back-end)

import os as _os
import shutil as _shutil
import sys as _sys
import threading as _threading
import time as _time

_ACTIVE = {'disk': None}
_HOOKED = [False]
_LOCK = _threading.Lock()
_MUT = {'os.rename', 'os.mkdir', 'os.remove', 'os.rmdir', 'os.truncate', 'os.link', 'os.symlink'}
_WFLAGS = _os.O_WRONLY | _os.O_RDWR | _os.O_CREAT | _os.O_TRUNC | _os.O_APPEND


def _resolve(ev, args):
  p = args[0]
  try:
    p = _os.fspath(p)
  except TypeError:
    return None
  if isinstance(p, bytes):
    p = p.decode('utf-8', 'replace')
  dir_fd = None
  if ev in ('os.remove', 'os.rmdir') and len(args) > 1:
    dir_fd = args[1]
  elif ev == 'os.mkdir' and len(args) > 2:
    dir_fd = args[2]
  elif ev == 'os.rename' and len(args) > 3:
    dir_fd = args[3]  # destination directory decides where the entry appears
  if isinstance(dir_fd, int) and dir_fd >= 0 and not _os.path.isabs(p):
    try:
      p = _os.path.join(_os.readlink(f'/proc/self/fd/{dir_fd}'), p)
    except OSError:
      pass
  return p


def _audit(ev, args):
  d = _ACTIVE['disk']
  if d is None:
    return
  if ev in _MUT:
    pass
  elif ev == 'open':
    mode, flags = args[1], args[2] if len(args) > 2 else 0
    if isinstance(mode, str):
      if not any(c in mode for c in 'wax+'):
        return
    elif not (isinstance(flags, int) and flags & _WFLAGS):
      return
  else:
    return
  p = _resolve(ev, args)
  if p is None:
    return
  if ev == 'os.rename':
    # report the destination (where a checkpoint appears); the source is in the same tree
    try:
      p = _os.fspath(args[1])
      if isinstance(p, bytes):
        p = p.decode()
    except TypeError:
      return
  if not (p == d.root or p.startswith(d.root + '/')):
    return
  d.tick({'open': 'create', 'os.rename': 'rename', 'os.mkdir': 'mkdir', 'os.remove': 'remove', 'os.rmdir': 'rmdir'}.get(ev, ev), p)


class RealDisk:
  """A real scratch directory.  Every Python-level mutating file event under `root` is a numbered fault
  point (CPython audit hook).  C++ writes of tensorstore are not intercepted (confined to Orbax's tmp dir)."""

  real = True

  def __init__(self, base, name):
    self.base_dir = base
    self.root = _os.path.join(base, name)
    _os.makedirs(self.root, exist_ok=True)
    self.ops = 0
    self.base = 0
    self.fault = None
    self.frozen = False
    self.fired = None
    self.oplog = []
    self.sched = None
    self.err_factory = os_error
    self._n = 0
    if not _HOOKED[0]:
      _sys.addaudithook(_audit)
      _HOOKED[0] = True

  def map(self, p):
    return self.root + p

  def rel(self, p):
    return p[len(self.root) :] if p.startswith(self.root) else p

  def tick(self, kind, path):
    with _LOCK:
      if self.frozen:
        raise SimCrash('frozen')
      i = self.ops - self.base
      self.ops += 1
      role = 'main' if _threading.current_thread() is _threading.main_thread() else 'bg'
      self.oplog.append((kind, self.rel(path), role))
      f = self.fault
      if f is not None and f['at'] == i:
        self.fired = dict(f, op=kind, name=self.rel(path), index=i)
        if f['kind'] == 'crash':
          self.frozen = True
          raise SimCrash(f'crash at op {i} {kind} {path}')
        self.fault = None
        raise self.err_factory(f.get('err', 'EIO'), path)

  def window(self, fault=None):
    self.base = self.ops
    self.fault = fault
    self.fired = None
    self.oplog = []

  def quiesce(self, timeout=20.0):
    """After a simulated crash: wait until every thread of the 'dead process' is gone before unfreezing."""
    t0 = _time.time()
    while _time.time() - t0 < timeout:
      others = [t for t in _threading.enumerate() if t is not _threading.main_thread() and not t.daemon]
      if not others:
        return
      _time.sleep(0.005)
    raise RuntimeError('threads of the crashed save did not finish: ' + repr(_threading.enumerate()))

  def restart(self):
    self.quiesce()
    self.frozen = False
    self.fault = None

  def install(self, fio, mode, tf_errors):
    saved = dict(io_mode=fio.io_mode, NotFoundError=fio.NotFoundError)
    # python os/shutil (visible to the audit hook); tensorflow's gfile is C++ and would be invisible
    fio.io_mode = fio.BackendMode.DEFAULT
    fio.NotFoundError = FileNotFoundError
    prev = _ACTIVE['disk']
    _ACTIVE['disk'] = self

    def restore():
      _ACTIVE['disk'] = prev
      fio.io_mode = saved['io_mode']
      fio.NotFoundError = saved['NotFoundError']

    return restore

  def activate(self):
    _ACTIVE['disk'] = self

  def clone(self):
    self._n += 1
    _ACTIVE['disk'], prev = None, _ACTIVE['disk']
    try:
      d = RealDisk(self.base_dir, _os.path.basename(self.root) + f'.c{self._n}')
      _shutil.rmtree(d.root)
      _shutil.copytree(self.root, d.root, symlinks=True)
    finally:
      _ACTIVE['disk'] = prev
    return d

  def dispose(self):
    prev = _ACTIVE['disk']
    _ACTIVE['disk'] = None
    try:
      _shutil.rmtree(self.root, ignore_errors=True)
    finally:
      _ACTIVE['disk'] = prev if prev is not self else None

  def listdir(self, path):
    try:
      return sorted(_os.listdir(path))
    except (FileNotFoundError, NotADirectoryError):
      return []

  def snapshot(self):
    files, dirs = {}, set()
    for dp, dn, fn in _os.walk(self.root):
      dirs.add(self.rel(dp))
      for f in fn:
        p = _os.path.join(dp, f)
        try:
          files[self.rel(p)] = open(p, 'rb').read()
        except OSError:
          files[self.rel(p)] = None
    return (files, frozenset(dirs))

  def get_file(self, path):
    try:
      return open(path, 'rb').read()
    except OSError:
      return None

  def _unhooked(self, fn):
    prev = _ACTIVE['disk']
    _ACTIVE['disk'] = None
    try:
      return fn()
    finally:
      _ACTIVE['disk'] = prev

  def put_file(self, path, data):
    def go():
      _os.makedirs(_os.path.dirname(path), exist_ok=True)
      with open(path, 'wb') as f:
        f.write(data)

    self._unhooked(go)

  def put_dir(self, path):
    self._unhooked(lambda: _os.makedirs(path, exist_ok=True))

  def norm(self, p):
    return _os.path.normpath(p)
