"""linenworld: Linen program specs -> real nn.Module classes whose bodies interpret the spec.

A program spec is JSON.  Every param / variable / rng draw / submodule call / sow / perturb in a
body is a numbered *callback event*; the harness can make event e raise (fault injection), and can
record every random key handed to user code (C09).  All arithmetic is small integers in float32,
so results are bit-identical however XLA fuses (oracles compare bytes).

module spec : {'style': 'compact'|'setup', 'name': str|None, 'body': [instr...]}
instr       : {'i': 'param', 'name', 'kind': 'bias'|'mat'|'scalar'}
              {'i': 'var', 'col', 'name', 'kind': 'counter'|'running'}
              {'i': 'sow', 'col', 'name'} {'i': 'perturb', 'name'} {'i': 'rng', 'stream'}
              {'i': 'child', 'mod': spec, 'times': n, 'lift': None|...}  {'i': 'inner'}
              {'i': 'write', 'col', 'name'}          (unguarded write: the write-to-immutable fault)
              {'i': 'cond'|'switch'|'while', ...}    (C05 twins; see props/c05.py)
"""
from __future__ import annotations

import collections

import json

D = 2  # feature width of every activation

jax = jnp = nn = np = None
CProg = SProg = None


class InjectedFault(Exception):
  """Raised by a callback event chosen by the simulator."""


class Ctl:
  """Harness-side controller shared by all module bodies of one op."""

  def __init__(self):
    self.reset()

  def reset(self, fail_at=None, record=False, plain=False):
    self.count = 0
    self.fail_at = fail_at
    self.fired = False
    self.record = record
    self.keys = []  # (path, stream, key data bytes) of every key handed to the body (eager runs only)
    self.plain = plain  # C05: interpret lifted instructions as their plain twin
    self.trace_count = 0
    self.cur_path = ()
    self.phase = 0  # C01 'twice' route: raised by the calling function between two calls of the same bound module

  yield_hook = None  # set by engines that run several simulated threads: every callback event is a scheduling point

  def event(self, what):
    if self.yield_hook is not None:
      self.yield_hook(what)
    i = self.count
    self.count += 1
    if self.fail_at is not None and i == self.fail_at:
      self.fired = True
      raise InjectedFault(f'injected at callback event {i} ({what})')


CTL = Ctl()
_PARSE = {}


def parse(s):
  sp = _PARSE.get(s)
  if sp is None:
    sp = _PARSE[s] = json.loads(s)
  return sp


def dumps(spec):
  return json.dumps(spec, sort_keys=True, separators=(',', ':'))


def setup():
  global jax, jnp, nn, np, CProg, SProg, flax
  if nn is not None:
    return
  import sim.jaxcompat as jc

  flax = jc.import_flax()
  import warnings
  from typing import Any, Optional

  import jax
  import jax.numpy as jnp
  import numpy as np
  import flax.linen as nn

  warnings.simplefilter('ignore')

  class CProg(nn.Module):
    spec: str
    inner: Optional[nn.Module] = None

    @nn.compact
    def __call__(self, x):
      return run_body(self, parse(self.spec), x, {})

  class SProg(nn.Module):
    spec: str
    inner: Optional[nn.Module] = None

    def setup(self):
      sp = parse(self.spec)
      decl = {}
      kids = []
      ps = []
      vs = []
      for n, ins in enumerate(sp['body']):
        if ins['i'] == 'child':
          kids.append(make(ins['mod']))
          decl[n] = ('kid', len(kids) - 1)
        elif ins['i'] == 'param':
          CTL.event('param')
          CTL.cur_path = tuple(self.path)
          init = int_init(ins['kind'])
          if ins.get('part'):
            init = nn.with_partitioning(init, tuple(ins['part']))
          ps.append(self.param(ins['name'], init, pshape(ins['kind'])))
          decl[n] = ('param', len(ps) - 1)
        elif ins['i'] == 'var':
          CTL.event('var')
          vs.append(self.variable(ins['col'], ins['name'], lambda k=ins['kind']: var_init(k)))
          decl[n] = ('var', len(vs) - 1)
      self.kids = kids
      self.ps = ps
      self.vs = vs
      self.decl = {str(k): v for k, v in decl.items()}

    def __call__(self, x):
      return run_body(self, parse(self.spec), x, self.decl)

  globals()['CProg'] = CProg
  globals()['SProg'] = SProg


def make(spec, inner=None, name=None):
  cls = CProg if spec['style'] == 'compact' else SProg
  kw = {}
  nm = name if name is not None else spec.get('name')
  if nm is not None:
    kw['name'] = nm
  return cls(spec=dumps(spec), inner=inner, **kw)


def pshape(kind):
  return {'bias': (D,), 'mat': (D, D), 'scalar': ()}[kind]


def int_init(kind):
  lo, hi = (-2, 3) if kind == 'mat' else (-4, 5)

  def init(key, shape, dtype=jnp.float32):
    if CTL.record:
      try:
        CTL.keys.append((CTL.cur_path, 'params', bytes(np.asarray(jax.random.key_data(key)))))
      except Exception:  # noqa: BLE001  (tracers under jit)
        pass
    return jax.random.randint(key, shape, lo, hi).astype(jnp.float32)

  return init


Pair = collections.namedtuple('Pair', ['n', 's'])  # a NamedTuple-valued variable (like an RNN carry or an optimizer-style state)


def var_init(kind):
  if kind == 'pair':
    return Pair(n=jnp.zeros((), jnp.float32), s=jnp.zeros((D,), jnp.float32))
  return jnp.zeros((), jnp.float32) if kind == 'counter' else jnp.zeros((D,), jnp.float32)


def apply_param(x, w, kind):
  if kind == 'bias':
    return x + w
  if kind == 'mat':
    return x @ w
  return x + w * 2.0


def run_body(mod, sp, x, decl):
  """Interprets the body of `sp` on module `mod`.  `decl` maps instruction index -> things declared in setup()."""
  compact = sp['style'] == 'compact'
  made = {}
  for n, ins in enumerate(sp['body']):
    k = ins['i']
    if k == 'param':
      if compact:
        CTL.event('param')
        CTL.cur_path = tuple(mod.path)
        init = int_init(ins['kind'])
        if ins.get('part'):
          init = nn.with_partitioning(init, tuple(ins['part']))
        w = mod.param(ins['name'], init, pshape(ins['kind']))
      else:
        w = mod.ps[decl[str(n)][1]]
      x = apply_param(x, w, ins['kind'])
    elif k == 'var':
      if compact:
        CTL.event('var')
        v = mod.variable(ins['col'], ins['name'], lambda kk=ins['kind']: var_init(kk))
      else:
        v = mod.vs[decl[str(n)][1]]
      if mod.is_mutable_collection(ins['col']):
        CTL.event('var-write')
        if ins['kind'] == 'counter':
          v.value = v.value + 1.0
        elif ins['kind'] == 'pair':
          v.value = Pair(n=v.value.n + 1.0, s=v.value.s + x.sum(axis=0))
        else:
          v.value = v.value + x.sum(axis=0)
      x = x + (v.value.n + v.value.s if ins['kind'] == 'pair' else v.value)
    elif k == 'write':
      # unguarded write: legal only when the collection is mutable
      CTL.event('write')
      if mod.has_variable(ins['col'], ins['name']):
        mod.put_variable(ins['col'], ins['name'], mod.get_variable(ins['col'], ins['name']) + 1.0)
      else:
        mod.put_variable(ins['col'], ins['name'], jnp.ones((), jnp.float32))
    elif k == 'libconv':
      # a library layer with its documented `mask=` option (host-side numpy mask); D spatial positions, one feature
      CTL.event('libconv')
      conv = nn.Conv(features=2, kernel_size=(1,), use_bias=False, mask=np.array([[[1.0, 0.0]]], np.float32), kernel_init=int_init('bias'), name=ins['name'])
      x = x + conv(x.reshape(x.shape + (1,))).sum(-1)
    elif k == 'late':
      # a variable in a collection that only comes into being in a LATER call of the same bound module
      if CTL.phase and mod.is_mutable_collection(ins['col']):
        CTL.event('late-var')
        v = mod.variable(ins['col'], ins['name'], lambda: jnp.zeros((), jnp.float32))
        v.value = v.value + 1.0
    elif k == 'sow':
      CTL.event('sow')
      if ins.get('how') == 'last_none':
        # keep-the-latest sow whose first recorded value is None (an optional argument that was not given)
        last = lambda a, b: b  # noqa: E731
        mod.sow(ins['col'], ins['name'], None, reduce_fn=last, init_fn=lambda: None)
        mod.sow(ins['col'], ins['name'], x, reduce_fn=last, init_fn=lambda: None)
      elif ins.get('how') == 'last_dict':
        # keep-the-latest sow of dict values (the caller keeps using the first dict afterwards)
        last = lambda a, b: b  # noqa: E731
        d1 = {'a': x + 1.0}
        mod.sow(ins['col'], ins['name'], d1, reduce_fn=last, init_fn=lambda: None)
        mod.sow(ins['col'], ins['name'], {'a': x * 2.0}, reduce_fn=last, init_fn=lambda: None)
        x = x + (d1['a'] - (x + 1.0))  # + 0 as long as nobody touched d1
      else:
        mod.sow(ins['col'], ins['name'], x)
    elif k == 'perturb':
      CTL.event('perturb')
      x = mod.perturb(ins['name'], x)
    elif k == 'rng':
      CTL.event('rng')
      key = mod.make_rng(ins['stream'])
      if CTL.record:
        try:
          CTL.keys.append((tuple(mod.path), ins['stream'], bytes(np.asarray(jax.random.key_data(key)))))
        except Exception:  # noqa: BLE001
          pass
      x = x + jax.random.randint(key, x.shape, -3, 4).astype(jnp.float32)
    elif k == 'child':
      if compact:
        sub = made.get(n)
        if sub is None:
          sub = made[n] = make_child(mod, ins)
      else:
        sub = mod.kids[decl[str(n)][1]]
      for _ in range(ins.get('times', 1)):
        CTL.event('child-call')
        x = sub(x)
    elif k == 'inner':
      if mod.inner is not None:
        CTL.event('inner-call')
        x = mod.inner(x)
    elif k in EXT:
      x = EXT[k](mod, ins, x, n, made)
    else:
      raise ValueError('unknown instruction ' + k)
  return x


EXT = {}  # instruction kinds added by other engines (C05 twins)


def make_child(mod, ins):
  hook = CHILD_HOOK[0]
  if hook is not None and ins.get('lift'):
    return hook(mod, ins)
  return make(ins['mod'])


CHILD_HOOK = [None]


# --------------------------------------------------------------------------
# generation


COLS = ['stats', 'batch_stats', 'cache']
STREAMS = ['dropout', 'noise', 'params']


def gen_module(g, depth=0, budget=None, allow=('param', 'var', 'sow', 'perturb', 'rng', 'child')):
  budget = budget if budget is not None else {'mods': 5, 'mats': 3}
  style = 'compact' if g.random() < 0.65 else 'setup'
  body = []
  names = set()

  def fresh(prefix):
    for i in range(20):
      nm = f'{prefix}{i}'
      if nm not in names:
        names.add(nm)
        return nm

  for _ in range(g.randrange(1, 5)):
    r = g.random()
    if r < 0.35 and 'param' in allow:
      kind = g.choice(['bias', 'bias', 'scalar', 'mat'])
      if kind == 'mat':
        if budget['mats'] <= 0:
          kind = 'bias'
        else:
          budget['mats'] -= 1
      body.append(dict(i='param', name=fresh('w'), kind=kind))
    elif r < 0.5 and 'var' in allow:
      body.append(dict(i='var', col=g.choice(COLS), name=fresh('v'), kind=g.choice(['counter', 'running'])))
    elif r < 0.58 and 'sow' in allow:
      body.append(dict(i='sow', col=g.choice(['intermediates', 'intermediates', 'aux']), name=fresh('s')))
      hw = g.random()
      if hw < 0.25:
        body[-1]['how'] = 'last_dict'
      elif hw < 0.45:
        body[-1]['how'] = 'last_none'
    elif r < 0.64 and 'perturb' in allow:
      body.append(dict(i='perturb', name=fresh('p')))
    elif r < 0.74 and 'rng' in allow:
      body.append(dict(i='rng', stream=g.choice(STREAMS)))
    elif depth < 2 and budget['mods'] > 0 and 'child' in allow:
      budget['mods'] -= 1
      child = gen_module(g, depth + 1, budget, allow)
      if g.random() < 0.3 and style == 'compact':
        child['name'] = fresh('named')
      body.append(dict(i='child', mod=child, times=g.choice([1, 1, 1, 2])))
    else:
      body.append(dict(i='param', name=fresh('w'), kind='bias'))
  return dict(style=style, name=None, body=body)


def streams_used(spec, out=None):
  out = set() if out is None else out
  for ins in spec['body']:
    if ins['i'] == 'rng':
      out.add(ins['stream'])
    for key in ('mod', 'then', 'else'):
      if isinstance(ins.get(key), dict):
        streams_used(ins[key], out)
    for m in ins.get('branches', []) or []:
      streams_used(m, out)
  return out


def cols_touched(spec, out=None, perturb=True):
  """Collections a program declares or writes (harness-side evaluation, no flax involved)."""
  out = set() if out is None else out
  for ins in spec['body']:
    if ins['i'] in ('var', 'write', 'sow'):
      out.add(ins['col'])
    if ins['i'] == 'perturb' and perturb:
      out.add('perturbations')
    if ins['i'] in ('param', 'libconv'):
      out.add('params')
    for key in ('mod', 'then', 'else'):
      if isinstance(ins.get(key), dict):
        cols_touched(ins[key], out, perturb)
    for m in ins.get('branches', []) or []:
      cols_touched(m, out, perturb)
  return out


def strip(spec, kinds):
  """Copy of a program with all instructions of the given kinds removed (e.g. the sows)."""
  body = []
  for ins in spec['body']:
    if ins['i'] in kinds:
      continue
    ins = dict(ins)
    if isinstance(ins.get('mod'), dict):
      ins['mod'] = strip(ins['mod'], kinds)
    body.append(ins)
  return dict(spec, body=body)


def make_input(batch, fill):
  return np.arange(batch * D, dtype=np.float32).reshape(batch, D) % 3 + np.float32(fill)
