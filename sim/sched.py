"""Deterministic baton-passing scheduler for real threads (DESIGN.md section 4).

Real OS threads, exactly one holds the baton.  Every intercepted
synchronisation call is a scheduling point at which the schedule (an explicit
list of choices, or the `sched` PRNG stream) picks the next runnable task.
Who runs is never decided by the OS.

`SimThreading` stands in for the `threading` module inside the module under
test; `SimExecutorModule` for `concurrent.futures.thread`.
"""
from __future__ import annotations

import sys
import threading as _rt


class Deadlock(BaseException):
  pass


class StepCap(BaseException):
  pass


class SimKill(BaseException):
  """Raised inside parked simulated threads when the run is torn down."""


class Chooser:
  """Source of every scheduling decision of a run: an explicit list (replay / shrinking; after the
  list is exhausted always choice 0 = keep running the current task) or the `sched` PRNG stream.
  Shared by all Sched instances of one run (a run may restart its simulated process)."""

  def __init__(self, rng=None, schedule=None, stay_bias=0.0):
    self.rng = rng
    self.schedule = list(schedule) if schedule is not None else None
    self.pos = 0
    self.trace = []
    self.stay_bias = stay_bias

  def pick(self, n):
    if n == 1:
      return 0  # not a real choice: neither recorded nor consumed
    if self.schedule is not None:
      idx = self.schedule[self.pos] % n if self.pos < len(self.schedule) else 0
      self.pos += 1
    elif self.stay_bias and self.rng.random() < self.stay_bias:
      idx = 0
    else:
      idx = self.rng.randrange(n)
    self.trace.append(idx)
    return idx


class Sched:
  def __init__(self, rng=None, schedule=None, step_cap=20000, stay_bias=0.0, chooser=None):
    self.chooser = chooser or Chooser(rng, schedule, stay_bias)
    self.trace = self.chooser.trace  # every choice made: index into the candidate list
    self.tasks = {}
    self.order = []
    self.next_id = 0
    self.steps = 0
    self.step_cap = step_cap
    self.local = _rt.local()
    self.killed = False
    self.deadlock = None
    self.log = []  # (task name, why, chosen task name)
    self.threads = []
    self.on_step = None
    self.main = self._new('main')
    self.local.tid = self.main
    self.cur = self.main

  # -- tasks
  def _new(self, name):
    tid = self.next_id
    self.next_id += 1
    self.tasks[tid] = dict(name=name, sem=_rt.Semaphore(0), runnable=True, done=False)
    return tid

  def me(self):
    return self.local.tid

  def name(self, tid=None):
    return self.tasks[self.me() if tid is None else tid]['name']

  def _cands(self, me):
    c = [t for t, d in self.tasks.items() if d['runnable'] and not d['done']]
    c.sort()
    # the current task first: choice 0 == "no context switch" (what shrinking drives towards)
    if me in c:
      c.remove(me)
      c.insert(0, me)
    return c

  def _pick(self, n):
    return self.chooser.pick(n)

  def _park(self, me):
    self.tasks[me]['sem'].acquire()
    if self.killed:
      raise SimKill()

  def _switch(self, me, nxt):
    if nxt != me:
      self.cur = nxt
      self.tasks[nxt]['sem'].release()
      self._park(me)

  def yield_(self, why):
    if self.killed:
      raise SimKill()
    me = self.me()
    self.steps += 1
    if self.steps > self.step_cap:
      raise StepCap(f'step cap {self.step_cap}')
    cands = self._cands(me)
    if not cands:
      self._deadlocked(me, why)
      return
    nxt = cands[self._pick(len(cands))]
    self.log.append((self.tasks[me]['name'], why, self.tasks[nxt]['name']))
    if self.on_step:
      self.on_step()
    self._switch(me, nxt)

  def _deadlocked(self, me, why):
    self.deadlock = 'all tasks blocked: ' + repr(sorted((d['name'], d.get('blocked_on')) for d in self.tasks.values() if not d['done']))
    self.log.append((self.tasks[me]['name'], why, 'DEADLOCK'))
    if me == self.main:
      raise Deadlock(self.deadlock)
    # hand the baton to main so that it can report; this task stays parked
    self.tasks[self.main]['runnable'] = True
    self.tasks[self.main]['deadlock_wake'] = True
    self.cur = self.main
    self.tasks[self.main]['sem'].release()
    self._park(me)

  def block(self, why):
    me = self.me()
    self.tasks[me]['runnable'] = False
    self.tasks[me]['blocked_on'] = why
    self.yield_(why)
    if self.tasks[me].pop('deadlock_wake', False):
      raise Deadlock(self.deadlock)

  def wake(self, tid):
    self.tasks[tid]['runnable'] = True
    self.tasks[tid].pop('blocked_on', None)

  def finish(self):
    """Called by a simulated thread when its target returned."""
    me = self.me()
    self.tasks[me]['done'] = True
    for t in self.tasks[me].get('joiners', []):
      self.wake(t)
    self.log.append((self.tasks[me]['name'], 'exit', None))
    if self.killed:
      return
    cands = self._cands(me)
    if cands:
      nxt = cands[self._pick(len(cands))]
      self.cur = nxt
      self.tasks[nxt]['sem'].release()
    else:
      # everybody else blocked: main must be told
      if not self.tasks[self.main]['done']:
        self.deadlock = 'all tasks blocked after thread exit'
        self.tasks[self.main]['runnable'] = True
        self.tasks[self.main]['deadlock_wake'] = True
        self.cur = self.main
        self.tasks[self.main]['sem'].release()

  def spawn(self, target, args=(), kwargs=None, name=None, tracer=None):
    tid = self._new(name or f'T{self.next_id}')
    kwargs = kwargs or {}

    def run():
      self.local.tid = tid
      try:
        self._park(tid)
        if tracer is not None:
          sys.settrace(tracer)
        try:
          target(*args, **kwargs)
        finally:
          sys.settrace(None)
          self.finish()
      except SimKill:
        self.tasks[tid]['done'] = True
      except BaseException as e:  # noqa: BLE001  - exceptions die with the thread, like real threads
        self.tasks[tid]['exc'] = e

    t = _rt.Thread(target=run, daemon=True)
    self.threads.append(t)
    t.start()
    return tid

  def shutdown(self):
    """End of run: unwind every parked task with SimKill and join the real threads."""
    self.killed = True
    for tid, d in self.tasks.items():
      if tid != self.main and not d['done']:
        d['sem'].release()
    for t in self.threads:
      t.join(timeout=10)
    alive = [t for t in self.threads if t.is_alive()]
    return len(alive)

  def drain(self, max_steps=2000):
    """Main thread: let the other tasks run until none is runnable (used at end of scripts)."""
    n = 0
    while any(d['runnable'] and not d['done'] for t, d in self.tasks.items() if t != self.main):
      self.yield_('drain')
      n += 1
      if n > max_steps:
        raise StepCap('drain')


# --------------------------------------------------------------------------
# threading stand-ins


class SimCondition:
  """threading.Condition() (with its own non-reentrant... actually RLock) semantics on the scheduler."""

  def __init__(self, s: Sched, lock=None):
    self.s = s
    self.owner = None
    self.depth = 0
    self.waiters = []
    self.lockq = []

  def _acquire(self, why):
    s = self.s
    me = s.me()
    if self.owner == me:  # threading.Condition() uses an RLock
      self.depth += 1
      return
    while self.owner is not None:
      self.lockq.append(me)
      s.block(why)
    self.owner = me
    self.depth = 1

  def _release_all(self):
    self.owner = None
    self.depth = 0
    for t in self.lockq:
      self.s.wake(t)
    self.lockq.clear()

  def acquire(self, blocking=True, timeout=-1):
    self.s.yield_('acquire')
    self._acquire('lock-wait')
    return True

  def release(self):
    if self.owner != self.s.me():
      raise RuntimeError('cannot release un-acquired lock')
    self.depth -= 1
    if self.depth == 0:
      self._release_all()
      self.s.yield_('release')

  def __enter__(self):
    self.acquire()
    return self

  def __exit__(self, et, ev, tb):
    if self.s.killed or (et is not None and issubclass(et, (SimKill, Deadlock, StepCap))):
      # the run is being torn down (or the scheduler is reporting): unwind quietly
      if self.owner == self.s.me():
        self._release_all()
      return False
    self.release()
    return False

  def wait(self, timeout=None):
    s = self.s
    me = s.me()
    if self.owner != me:
      raise RuntimeError('cannot wait on un-acquired lock')
    depth = self.depth
    self._release_all()
    self.waiters.append(me)
    s.block('cond.wait')
    while self.owner is not None:
      self.lockq.append(me)
      s.block('relock')
    self.owner = me
    self.depth = depth
    return True

  def wait_for(self, predicate, timeout=None):
    r = predicate()
    while not r:
      self.wait()
      r = predicate()
    return r

  def notify(self, n=1):
    if self.owner != self.s.me():
      raise RuntimeError('cannot notify on un-acquired lock')
    for t in self.waiters[:n]:
      self.s.wake(t)
    del self.waiters[:n]

  def notify_all(self):
    if self.owner != self.s.me():
      raise RuntimeError('cannot notify on un-acquired lock')
    for t in self.waiters:
      self.s.wake(t)
    self.waiters.clear()

  notifyAll = notify_all


class SimLock(SimCondition):
  """threading.Lock / RLock stand-in (re-entrancy tolerated)."""


class SimEvent:
  def __init__(self, s):
    self.s = s
    self.flag = False
    self.waiters = []

  def is_set(self):
    return self.flag

  def set(self):
    self.flag = True
    for t in self.waiters:
      self.s.wake(t)
    self.waiters.clear()
    self.s.yield_('event.set')

  def clear(self):
    self.flag = False

  def wait(self, timeout=None):
    self.s.yield_('event.wait')
    while not self.flag:
      self.waiters.append(self.s.me())
      self.s.block('event-wait')
    return True


class SimThread:
  def __init__(self, s, target=None, daemon=None, args=(), kwargs=None, name=None, tracer=None):
    self.s = s
    self.target = target
    self.args = args
    self.kwargs = kwargs or {}
    self.daemon = daemon
    self.name = name
    self.tid = None
    self.tracer = tracer

  def start(self):
    self.tid = self.s.spawn(self.target, self.args, self.kwargs, tracer=self.tracer)
    self.s.yield_('thread.start')

  def is_alive(self):
    return self.tid is not None and not self.s.tasks[self.tid]['done']

  def join(self, timeout=None):
    s = self.s
    s.yield_('join')
    while not s.tasks[self.tid]['done']:
      s.tasks[self.tid].setdefault('joiners', []).append(s.me())
      s.block('join-wait')


class SimThreading:
  """Stand-in for the `threading` module as seen by the module under test."""

  def __init__(self, sched: Sched, tracer=None):
    self._s = sched
    self._tracer = tracer

  def Condition(self, lock=None):
    return SimCondition(self._s)

  def Lock(self):
    return SimLock(self._s)

  RLock = Lock

  def Event(self):
    return SimEvent(self._s)

  def Thread(self, group=None, target=None, name=None, args=(), kwargs=None, daemon=None):
    return SimThread(self._s, target=target, daemon=daemon, args=args, kwargs=kwargs, name=name, tracer=self._tracer)

  def current_thread(self):
    return _rt.current_thread()

  def __getattr__(self, n):
    return getattr(_rt, n)


# --------------------------------------------------------------------------
# concurrent.futures.thread stand-in


class SimFuture:
  def __init__(self, s):
    self.s = s
    self._done = False
    self._result = None
    self._exc = None
    self._waiters = []

  def done(self):
    self.s.yield_('future.done')
    return self._done

  def _set(self, result=None, exc=None):
    self._result, self._exc, self._done = result, exc, True
    for t in self._waiters:
      self.s.wake(t)
    self._waiters.clear()

  def result(self, timeout=None):
    s = self.s
    s.yield_('future.result')
    while not self._done:
      self._waiters.append(s.me())
      s.block('future-wait')
    if self._exc is not None:
      raise self._exc
    return self._result

  def exception(self, timeout=None):
    s = self.s
    s.yield_('future.exception')
    while not self._done:
      self._waiters.append(s.me())
      s.block('future-wait')
    return self._exc


class SimThreadPoolExecutor:
  """One simulated thread per submitted task, at most `max_workers` running: later tasks wait for a slot."""

  def __init__(self, s: Sched, max_workers=None):
    self.s = s
    self.max_workers = max_workers or 4
    self.running = 0
    self.slotq = []
    self.futures = []

  def submit(self, fn, *args, **kwargs):
    s = self.s
    fut = SimFuture(s)
    self.futures.append(fut)

    def body():
      # wait for a worker slot (FIFO is not promised by the real executor for >1 workers either)
      while self.running >= self.max_workers:
        self.slotq.append(s.me())
        s.block('pool-slot')
      self.running += 1
      try:
        try:
          r = fn(*args, **kwargs)
        except SimKill:
          raise
        except BaseException as e:  # noqa: BLE001
          fut._set(exc=e)
          if not isinstance(e, Exception):
            # BaseException (e.g. simulated crash) ends the worker; still recorded in the future
            pass
        else:
          fut._set(result=r)
      finally:
        self.running -= 1
        for t in self.slotq:
          s.wake(t)
        self.slotq.clear()

    s.spawn(body, name=f'pool{len(self.futures)}')
    s.yield_('submit')
    return fut

  def map(self, fn, *iterables):
    futs = [self.submit(fn, *a) for a in zip(*iterables)]

    def gen():
      for f in futs:
        yield f.result()

    return gen()

  def shutdown(self, wait=True, cancel_futures=False):
    if wait:
      for f in list(self.futures):
        try:
          f.exception()
        except SimKill:
          raise

  def __enter__(self):
    return self

  def __exit__(self, *a):
    self.shutdown(wait=True)
    return False


class SimExecutorModule:
  """Stand-in for `concurrent.futures.thread` (checkpoints.py does `thread.ThreadPoolExecutor(...)`)."""

  def __init__(self, sched):
    self._s = sched

  def ThreadPoolExecutor(self, max_workers=None, **kw):
    return SimThreadPoolExecutor(self._s, max_workers)
