"""Harness-side compatibility aliases: flax 0.10.5 (/repo) on jax 0.11.x.

Must be imported BEFORE flax.  Nothing in /repo is altered; every evidence file
lists this shim under `assumptions` (DESIGN.md section 2).
"""
import functools
import os
import sys
import warnings

os.environ.setdefault('TF_CPP_MIN_LOG_LEVEL', '3')
os.environ.setdefault('JAX_PLATFORMS', 'cpu')
warnings.simplefilter('ignore')

import jax  # noqa: E402
import jax.core  # noqa: E402
import jax.extend.core  # noqa: E402

jax.config.update('jax_traceback_filtering', 'off')  # oracles attribute exceptions by the frames they pass through

if not hasattr(jax.core, 'get_opaque_trace_state'):
  jax.core.get_opaque_trace_state = jax.extend.core.get_opaque_trace_state

_jit = jax.jit


def _compat_jit(*a, **k):
  if 'abstracted_axes' in k and k['abstracted_axes'] is None:
    k.pop('abstracted_axes')
  return _jit(*a, **k)


functools.update_wrapper(_compat_jit, _jit)
jax.jit = _compat_jit

_ckpt = jax.checkpoint


def _compat_checkpoint(*a, **k):
  if 'concrete' in k and not k['concrete']:
    k.pop('concrete')
  return _ckpt(*a, **k)


functools.update_wrapper(_compat_checkpoint, _ckpt)
jax.checkpoint = _compat_checkpoint
jax.remat = _compat_checkpoint

if not hasattr(jax, 'device_put_sharded'):

  def device_put_sharded(shards, devices):
    """In-process stand-in for the removed jax.device_put_sharded (declared stub)."""
    import numpy as np

    assert len(shards) == len(devices), (len(shards), len(devices))
    return np.stack([np.asarray(s) for s in shards])

  jax.device_put_sharded = device_put_sharded


def import_flax():
  """Imports flax from /repo's working tree (or $VERIF_FLAX_ROOT) and asserts where it came from."""
  root = os.environ.get('VERIF_FLAX_ROOT', '/repo')
  if sys.path[0] != root:
    sys.path.insert(0, root)
  import flax

  assert os.path.realpath(flax.__file__).startswith(os.path.realpath(root) + '/'), (
    flax.__file__,
    root,
  )
  return flax
