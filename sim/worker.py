"""Worker / replay entry point, run as a script in a fresh interpreter (never forked)."""
import os
import sys

sys.path.insert(0, os.path.dirname(os.path.dirname(os.path.abspath(__file__))))
from sim import kernel  # noqa: E402

if __name__ == '__main__':
  if sys.argv[1] == '--replay':
    kernel.replay_main(sys.argv[2])
  else:
    kernel.worker_main(sys.argv[1:])
