"""nnxworld core: a heap of NNX object graphs mirrored by a pure-Python graph model (DESIGN.md section 5).

The mirror (MNode / MVar) knows nothing about flax.  The *canonical form* of a graph is
(types, static attributes, variable records, and the partition of all paths into identity classes);
it is computed by two independent walkers, one over the model and one over the real objects
(plain Python attribute inspection, no flax graph API), and compared for equality.
"""
from __future__ import annotations

import collections
import dataclasses
import typing

from sim import kernel
from sim.kernel import Violation

np = jax = nnx = None
NODE_TYPES = {}
VTYPES = {}
# generic pytree containers (everything flax handles with its generic pytree node implementation, i.e. a pytree that is
# not exactly list / tuple / dict): classes are made on demand, one per (kind, declared field order), and live as long
# as the process (a class is a pure function of its key, so runs stay independent of each other)
GENERIC_KINDS = ('namedtuple', 'odict', 'struct')
GENERIC_TYPES = {}
GENERIC_FIELDS = ['a', 'b', 'c', 'm', 'w']  # all in NAMES: path filters reach inside the containers
STRUCT_STATIC_FIELD = 'label'  # the struct kind carries one non-pytree (static) dataclass field, declared last


def generic_type(kind, fields):
  """The container class for `fields` in this DECLARATION order (None for odict: the order is per instance)."""
  if kind == 'odict':
    return collections.OrderedDict
  key = (kind, tuple(fields))
  if key not in GENERIC_TYPES:
    if kind == 'namedtuple':
      GENERIC_TYPES[key] = collections.namedtuple('NT_' + '_'.join(fields), list(fields))
    elif kind == 'struct':
      from flax import struct

      ann = {f: typing.Any for f in fields}
      ann[STRUCT_STATIC_FIELD] = typing.Any
      ns = {'__annotations__': ann, STRUCT_STATIC_FIELD: struct.field(pytree_node=False, default=None)}
      GENERIC_TYPES[key] = struct.dataclass(type('ST_' + '_'.join(fields), (), ns))
    else:
      raise ValueError(kind)
  return GENERIC_TYPES[key]


def order_is_involution(fields):
  """Is the permutation taking the sorted keys to the declared order its own inverse?"""
  srt = sorted(fields)
  p = [srt.index(f) for f in fields]
  return all(p[p[i]] == i for i in range(len(p)))


def setup():
  global np, jax, jnp, nnx, NODE_TYPES, VTYPES
  if nnx is not None:
    return
  import sim.jaxcompat as jc

  jc.import_flax()
  import warnings

  import numpy as np
  import jax
  import jax.numpy as jnp
  from flax import nnx

  warnings.simplefilter('ignore')

  class Node(nnx.Module):
    def __init__(self):
      pass

  class Node2(nnx.Module):
    def __init__(self):
      pass

  class Custom(nnx.Variable):
    pass

  class SubParam(nnx.Param):
    pass

  NODE_TYPES.update(Node=Node, Node2=Node2)
  VTYPES.update(Param=nnx.Param, BatchStat=nnx.BatchStat, Cache=nnx.Cache, Custom=Custom, SubParam=SubParam)


VT_MRO = {
  'Param': ['Param', 'Variable'],
  'BatchStat': ['BatchStat', 'Variable'],
  'Cache': ['Cache', 'Variable'],
  'Custom': ['Custom', 'Variable'],
  'SubParam': ['SubParam', 'Param', 'Variable'],
}


# --------------------------------------------------------------------------
# mirror


class MVar:
  __slots__ = ('id', 'vtype', 'value', 'meta')

  def __init__(self, id, vtype, value, meta):
    self.id, self.vtype, self.value, self.meta = id, vtype, value, dict(meta)


class MNode:
  __slots__ = ('id', 'kind', 'tname', 'attrs', 'order')

  def __init__(self, id, kind, tname):
    self.id, self.kind, self.tname = id, kind, tname
    self.attrs = {}  # key -> ('static', v) | ('array', ndarray) | ('ref', MNode|MVar)
    self.order = None  # generic pytree containers only: the keys in declaration / insertion order


def arr_rec(a):
  a = np.asarray(a)
  return (str(a.dtype), tuple(a.shape), a.tobytes())


def _meta_rec(meta):
  return tuple(sorted((k, repr(v)) for k, v in meta.items()))


def canon_model(root):
  index = {}

  def go(x):
    if isinstance(x, MVar):
      if x.id in index:
        return ('ref', index[x.id])
      index[x.id] = len(index)
      return ('var', index[x.id], x.vtype, arr_rec(x.value), _meta_rec(x.meta))
    if x.kind == 'module':
      if x.id in index:
        return ('ref', index[x.id])
      index[x.id] = n = len(index)
      return ('node', n, x.tname, [(k, entry(x.attrs[k])) for k in sorted(x.attrs)])
    if x.kind == 'dict':
      return ('dict', [(k, entry(x.attrs[k])) for k in sorted(x.attrs)])
    if x.kind in GENERIC_KINDS:
      # which child sits under which field, fields in declaration order
      return (x.kind, x.tname, [(k, entry(x.attrs[k])) for k in x.order])
    return (x.kind, [entry(x.attrs[k]) for k in sorted(x.attrs)])

  def entry(e):
    if e[0] == 'static':
      return ('static', repr(e[1]))
    if e[0] == 'array':
      return ('array',) + arr_rec(e[1])
    return go(e[1])

  return go(root)


def canon_real(root):
  index = {}

  def go(x):
    if isinstance(x, nnx.Variable):
      if id(x) in index:
        return ('ref', index[id(x)])
      index[id(x)] = len(index)
      return ('var', index[id(x)], type(x).__name__, arr_rec(x.raw_value), _meta_rec(x.get_metadata()))
    if isinstance(x, nnx.Object):
      if id(x) in index:
        return ('ref', index[id(x)])
      index[id(x)] = n = len(index)
      return ('node', n, type(x).__name__, [(k, go(v)) for k, v in sorted(vars(x).items()) if k != '_object__state'])
    if isinstance(x, collections.OrderedDict):
      return ('odict', 'OrderedDict', [(k, go(v)) for k, v in x.items()])
    if isinstance(x, dict):
      return ('dict', [(k, go(x[k])) for k in sorted(x)])
    if isinstance(x, list):
      return ('list', [go(v) for v in x])
    if isinstance(x, tuple) and hasattr(x, '_fields'):
      return ('namedtuple', type(x).__name__, [(f, go(v)) for f, v in zip(x._fields, tuple.__iter__(x))])
    if isinstance(x, tuple):
      return ('tuple', [go(v) for v in x])
    if isinstance(x, (np.ndarray, jax.Array)):
      return ('array',) + arr_rec(x)
    if dataclasses.is_dataclass(x) and not isinstance(x, type):
      return ('struct', type(x).__name__, [(f.name, go(vars(x)[f.name])) for f in dataclasses.fields(x)])
    return ('static', repr(x))

  return go(root)


def real_objects(root):
  """ids of every mutable object (graph nodes, Variables, containers) reachable from a real root."""
  seen = {}

  def go(x):
    if isinstance(x, (nnx.Variable, nnx.Object, dict, list)):
      if id(x) in seen:
        return
      seen[id(x)] = x
    if isinstance(x, nnx.Object):
      for k, v in vars(x).items():
        if k != '_object__state':
          go(v)
    elif isinstance(x, dict):
      for v in x.values():
        go(v)
    elif isinstance(x, (list, tuple)):
      for v in x:
        go(v)
    elif dataclasses.is_dataclass(x) and not isinstance(x, type):
      for f in dataclasses.fields(x):
        go(vars(x).get(f.name))

  go(root)
  return seen


def model_leaves(root):
  """[(path, MVar | ('array', a))] in flax's state order: DFS, keys sorted, each Variable once under its first path."""
  out = []
  seen = set()

  def go(x, path):
    if isinstance(x, MVar):
      if x.id in seen:
        return
      seen.add(x.id)
      out.append((path, x))
      return
    if x.kind == 'module':
      if x.id in seen:
        return
      seen.add(x.id)
    for k in sorted(x.attrs):
      e = x.attrs[k]
      if e[0] == 'ref':
        go(e[1], path + (k,))
      elif e[0] == 'array':
        out.append((path + (k,), ('array', e[1])))

  go(root, ())
  return out


def model_reachable(root):
  seen = {}

  def go(x):
    if x.id in seen:
      return
    seen[x.id] = x
    if isinstance(x, MNode):
      for e in x.attrs.values():
        if e[0] == 'ref':
          go(e[1])

  go(root)
  return seen


def model_occurrences(root):
  """Every (path, MVar, parent MNode) occurrence: module nodes are entered once (first visit in sorted-key DFS),
  Variables are listed under every attribute that references them."""
  out = []
  seen = set()

  def go(x, path, parent):
    if isinstance(x, MVar):
      out.append((path, x, parent))
      return
    if x.kind == 'module':
      if x.id in seen:
        return
      seen.add(x.id)
    for k in sorted(x.attrs):
      e = x.attrs[k]
      if e[0] == 'ref':
        go(e[1], path + (k,), x)

  go(root, (), None)
  return out


def model_array_in_container(root):
  """Does a raw array sit directly inside a non-module container (plain or generic)?  Such a leaf is part of the state
  but cannot be written back: the containers are immutable nodes for flax (`update` raises ValueError by design)."""
  seen = set()

  def go(x):
    if isinstance(x, MVar):
      return False
    if x.kind == 'module':
      if x.id in seen:
        return False
      seen.add(x.id)
    for e in x.attrs.values():
      if e[0] == 'array' and x.kind != 'module':
        return True
      if e[0] == 'ref' and go(e[1]):
        return True
    return False

  return go(root)


def model_paths_count(root):
  """Number of distinct access paths (bounded) reaching each Variable: >1 means shared."""
  cnt = {}
  seen_nodes = set()

  def go(x):
    if isinstance(x, MVar):
      cnt[x.id] = cnt.get(x.id, 0) + 1
      return
    if x.kind == 'module':
      if x.id in seen_nodes:
        return
      seen_nodes.add(x.id)
    for e in x.attrs.values():
      if e[0] == 'ref':
        go(e[1])

  go(root)
  return cnt


# filters as JSON specs ----------------------------------------------------


def filter_real(f):
  if 't' in f:
    return VTYPES[f['t']]
  if 'e' in f:
    return ...
  if 'pc' in f:
    return nnx.PathContains(f['pc'])
  if 'not' in f:
    return nnx.Not(filter_real(f['not']))
  if 'any' in f:
    return nnx.Any(*[filter_real(x) for x in f['any']])
  if 'all' in f:
    return nnx.All(*[filter_real(x) for x in f['all']])
  if 'tag' in f:
    return f['tag']
  raise ValueError(f)


def filter_model(f, path, leaf):
  """The harness's own predicate evaluator (does not call flax's filterlib)."""
  if 't' in f:
    return isinstance(leaf, MVar) and f['t'] in VT_MRO[leaf.vtype]
  if 'e' in f:
    return True
  if 'pc' in f:
    return f['pc'] in path
  if 'not' in f:
    return not filter_model(f['not'], path, leaf)
  if 'any' in f:
    return any(filter_model(x, path, leaf) for x in f['any'])
  if 'all' in f:
    return all(filter_model(x, path, leaf) for x in f['all'])
  if 'tag' in f:
    return isinstance(leaf, MVar) and leaf.meta.get('tag') == f['tag']
  raise ValueError(f)


def gen_filter(g, depth=0):
  r = g.random()
  if r < 0.45 or depth > 1:
    return {'t': g.choice(['Param', 'BatchStat', 'Cache', 'Custom', 'SubParam'])}
  if r < 0.55:
    return {'pc': g.choice(NAMES)}
  if r < 0.65:
    return {'tag': g.choice(['x', 'y'])}
  if r < 0.8:
    return {'not': gen_filter(g, depth + 1)}
  if r < 0.9:
    return {'any': [gen_filter(g, depth + 1), gen_filter(g, depth + 1)]}
  return {'all': [gen_filter(g, depth + 1), gen_filter(g, depth + 1)]}


NAMES = ['a', 'b', 'c', 'w', 'sub', 'peer', 'kids', 'm', 'z0']


def flat_real_state(state):
  """[(path, leaf)] of a State / nested mapping, in its own iteration order."""
  out = []

  def go(s, path):
    for k in s:
      v = s[k]
      if hasattr(v, 'keys') and not isinstance(v, nnx.VariableState):
        go(v, path + (k,))
      else:
        out.append((path + (k,), v))

  go(state, ())
  return out


def leaf_rec_real(v):
  if isinstance(v, nnx.VariableState):
    return ('var', v.type.__name__, arr_rec(v.value), _meta_rec(v.get_metadata()))
  if isinstance(v, nnx.Variable):
    return ('var', type(v).__name__, arr_rec(v.raw_value), _meta_rec(v.get_metadata()))
  return ('array',) + arr_rec(v)


def leaf_rec_model(l):
  if isinstance(l, MVar):
    return ('var', l.vtype, arr_rec(l.value), _meta_rec(l.meta))
  return ('array',) + arr_rec(l[1])


# --------------------------------------------------------------------------
# heap: real objects and their mirror, built by the same operations


class Heap:
  def __init__(self):
    self.real = {}  # model id -> real object
    self.model = {}  # model id -> MNode | MVar
    self.nodes = []  # ids of module nodes, creation order
    self.vars = []
    self.next = 0

  def _id(self):
    self.next += 1
    return self.next

  def new_node(self, tname):
    i = self._id()
    self.model[i] = MNode(i, 'module', tname)
    self.real[i] = NODE_TYPES[tname]()
    self.nodes.append(i)
    return i

  def new_var(self, vtype, shape, fill, meta):
    i = self._id()
    val = np.full(tuple(shape), float(fill), np.float32)
    self.model[i] = MVar(i, vtype, val, meta)
    self.real[i] = VTYPES[vtype](jnp.asarray(val) if (i % 3 == 0) else val.copy(), **meta)
    self.vars.append(i)
    return i

  def node(self, k):
    return self.nodes[k % len(self.nodes)]

  def set_static(self, nid, name, value):
    setattr(self.real[nid], name, value)
    self.model[nid].attrs[name] = ('static', value)

  def set_array(self, nid, name, shape, fill, jaxarr):
    val = np.full(tuple(shape), float(fill), np.float32)
    setattr(self.real[nid], name, jnp.asarray(val) if jaxarr else val)
    self.model[nid].attrs[name] = ('array', val)

  def set_ref(self, nid, name, target):
    setattr(self.real[nid], name, self.real[target])
    self.model[nid].attrs[name] = ('ref', self.model[target])

  def set_container(self, nid, name, kind, items):
    """items: list of (key, ('ref', id) | ('static', v)); a fresh, never-aliased list/tuple/dict."""
    i = self._id()
    m = MNode(i, kind, kind)
    vals = []
    for key, it in items:
      if it[0] == 'ref':
        m.attrs[key] = ('ref', self.model[it[1]])
        vals.append((key, self.real[it[1]]))
      else:
        m.attrs[key] = ('static', it[1])
        vals.append((key, it[1]))
    if kind == 'dict':
      r = {k: v for k, v in vals}
    elif kind == 'list':
      r = [v for _, v in vals]
    else:
      r = tuple(v for _, v in vals)
    self.model[i] = m
    self.real[i] = r
    setattr(self.real[nid], name, r)
    self.model[nid].attrs[name] = ('ref', m)
    return i

  def set_generic(self, nid, name, kind, fields, items, label=None):
    """A fresh, never-aliased generic pytree container (namedtuple / OrderedDict / flax.struct dataclass) whose keys
    are `fields` in this declaration (insertion) order; items: one of ('ref', id) | ('static', v) |
    ('array', ndarray, as_jax) per field."""
    i = self._id()
    cls = generic_type(kind, fields)
    m = MNode(i, kind, cls.__name__)
    m.order = list(fields)
    vals = []
    for f, it in zip(fields, items):
      if it[0] == 'ref':
        m.attrs[f] = ('ref', self.model[it[1]])
        vals.append(self.real[it[1]])
      elif it[0] == 'array':
        m.attrs[f] = ('array', it[1])
        vals.append(jnp.asarray(it[1]) if it[2] else it[1].copy())
      else:
        m.attrs[f] = ('static', it[1])
        vals.append(it[1])
    if kind == 'namedtuple':
      r = cls(*vals)
    elif kind == 'odict':
      r = collections.OrderedDict(zip(fields, vals))
    else:
      r = cls(*vals, **{STRUCT_STATIC_FIELD: label})
      m.attrs[STRUCT_STATIC_FIELD] = ('static', label)
      m.order.append(STRUCT_STATIC_FIELD)
    self.model[i] = m
    self.real[i] = r
    setattr(self.real[nid], name, r)
    self.model[nid].attrs[name] = ('ref', m)
    return i

  def del_attr(self, nid, name):
    if name in self.model[nid].attrs:
      delattr(self.real[nid], name)
      del self.model[nid].attrs[name]
      return True
    return False

  # -- invariants
  def check_root(self, nid, where):
    """The real graph under `nid` is still the mirror's graph: same canonical form, same objects."""
    m, r = self.model[nid], self.real[nid]
    cm, cr = canon_model(m), canon_real(r)
    if cm != cr:
      raise Violation('graph-differs-from-model', f'{where}: real graph {_short(cr)} != model {_short(cm)}')
    self.check_identity(nid, where)

  def check_identity(self, nid, where):
    seen = set()

    def go(m, r, path):
      if isinstance(m, MVar) or m.kind == 'module':
        if r is not self.real[m.id]:
          raise Violation('identity-changed', f'{where}: object at path {path} is not the caller\'s original object')
        if m.id in seen:
          return
        seen.add(m.id)
      if isinstance(m, MVar):
        return
      for k, e in m.attrs.items():
        if e[0] != 'ref':
          continue
        if m.kind == 'module':
          child = vars(r).get(k)
        elif m.kind in ('namedtuple', 'struct'):
          child = getattr(r, k, None)
        else:
          try:
            child = r[k]
          except (KeyError, IndexError, TypeError):
            child = None
        go(e[1], child, path + (k,))

    go(self.model[nid], self.real[nid], ())


def _short(x):
  s = repr(x)
  return s if len(s) < 500 else s[:500] + '...'


# --------------------------------------------------------------------------
# generation of heap-building ops (shared by C03 / C04 / C17)


STATICS = [0, 1, 7, 'tag', None, 'x', True, -1, -2]  # hash(-1) == hash(-2) in CPython
# True == 1 == 1.0 and False == 0 == 0.0 == -0.0 hash alike: types and signs must survive a round trip
STATICS_TYPED = STATICS + [False, 1.0, 0.0, -0.0]


def gen_generic_op(g, obj, name, statics):
  """A generic pytree container with 2-4 children.  The declaration order of the fields is what matters: flax keeps
  the children in sorted-key order internally and has to put them back in declaration order, so rotations (orders
  that are neither sorted nor their own inverse as a permutation, e.g. b c a / c a b) are generated on purpose.
  The order is a list in the plan (replay files are written with sorted keys)."""
  kind = g.choice(['namedtuple', 'namedtuple', 'odict', 'odict', 'struct'])
  n = g.choice([2, 3, 3, 3, 4, 4])
  fields = sorted(g.sample(GENERIC_FIELDS, n))
  if g.random() < 0.5:
    k = g.randrange(1, n)
    fields = fields[k:] + fields[:k]
  else:
    g.shuffle(fields)
  items = []
  for j in range(n):
    q = g.random()
    if q < 0.45:
      # fresh Variables that differ in type, value and (sometimes) metadata from their siblings
      meta = {'tag': g.choice(['x', 'y'])} if g.random() < 0.3 else {}
      items.append(dict(kind='newvar', target=0, vtype=g.choice(['Param', 'Param', 'BatchStat', 'Cache', 'Custom', 'SubParam']), shape=g.choice([[2], [], [1]]), fill=10 * (j + 1) + g.randrange(5), meta=meta))
    elif q < 0.60:
      items.append(dict(kind='var', target=g.randrange(64)))
    elif q < 0.72:
      items.append(dict(kind='node', target=g.randrange(64)))
    elif q < 0.86:
      items.append(dict(kind='static', target=0, value=g.choice(statics)))
    else:
      items.append(dict(kind='array', target=0, shape=g.choice([[2], [2, 2], []]), fill=g.randrange(-3, 9) + 20 * j, jax=g.random() < 0.5))
  return dict(op='generic', obj=obj, name=name, kind=kind, fields=fields, items=items, label=g.choice(['stats', 'x', None, 0]))


def gen_build_ops(g, n, statics=STATICS, generic=False):
  """generic=True (C03 only) adds generic pytree containers; with generic=False the draws are exactly what they
  were before that knob existed."""
  ops = [dict(op='new', t='Node')]
  for _ in range(n):
    r = g.random()
    a, b = g.randrange(64), g.randrange(64)
    name = g.choice(NAMES)
    if r < 0.12:
      ops.append(dict(op='new', t=g.choice(['Node', 'Node2'])))
    elif r < 0.22:
      ops.append(dict(op='static', obj=a, name=name, value=g.choice(statics)))
    elif r < 0.30:
      ops.append(dict(op='array', obj=a, name=name, shape=g.choice([[2], [2, 2], []]), fill=g.randrange(-3, 9), jax=g.random() < 0.5))
    elif r < 0.55:
      meta = {}
      if g.random() < 0.3:
        meta['tag'] = g.choice(['x', 'y'])
      if g.random() < 0.2:
        meta['sharding'] = g.choice([['dp'], ['dp', 'mp']])
      ops.append(dict(op='var', obj=a, name=name, vtype=g.choice(['Param', 'Param', 'BatchStat', 'Cache', 'Custom', 'SubParam']), shape=g.choice([[2], [2, 3], [], [1]]), fill=g.randrange(-4, 20), meta=meta))
    elif r < 0.80:
      ops.append(dict(op='ref', obj=a, name=name, target=b, kind=g.choice(['node', 'node', 'var'])))
    elif r < 0.92:
      q = g.random()
      if q < 0.12:
        # a long list of fresh Variables: integer keys beyond 9 (ordering by index, not by text)
        n_items = g.randrange(11, 15)
        items = [dict(target=g.randrange(64), kind='newvar', fill=j + 1) for j in range(n_items)]
        ops.append(dict(op='container', obj=a, name=name, kind=g.choice(['list', 'list', 'tuple']), items=items))
      elif generic and q < 0.50:
        ops.append(gen_generic_op(g, a, name, statics))
      else:
        ops.append(dict(op='container', obj=a, name=name, kind=g.choice(['list', 'dict', 'tuple']), items=[dict(target=g.randrange(64), kind=g.choice(['node', 'var', 'static'])) for _ in range(g.randrange(0, 4))]))
    elif r < 0.96:
      ops.append(dict(op='del', obj=a, name=name))
    else:
      # edit the metadata of an existing Variable in place
      ops.append(dict(op='setmeta', var=b, key=g.choice(['tag', 'note']), value=g.choice(['x', 'y', 'frozen', None])))
  return ops


class _GetHook:
  """A user get-hook (metadata `on_get_value`): what `.value` shows is not what is stored."""

  def __call__(self, var, value):
    return value * 8 + 1

  def __repr__(self):
    return 'GETHOOK'


class _SetHook:
  """A user set-hook (metadata `on_set_value`), deliberately not idempotent: it acts on user assignments
  `v.value = ...` and on nothing else."""

  def __call__(self, var, value):
    return value + 1

  def __repr__(self):
    return 'SETHOOK'


HOOKS = {'@GETHOOK': _GetHook(), '@SETHOOK': _SetHook()}


def apply_build_op(h: Heap, op, res=None):
  k = op['op']
  if k == 'new':
    h.new_node(op['t'])
  elif k == 'static':
    v = op['value']
    h.set_static(h.node(op['obj']), op['name'], tuple(v) if isinstance(v, list) else v)
  elif k == 'array':
    h.set_array(h.node(op['obj']), op['name'], op['shape'], op['fill'], op['jax'])
  elif k == 'var':
    meta = {kk: (tuple(v) if isinstance(v, list) else v) for kk, v in op['meta'].items()}
    if 'sharding' in meta and len(meta['sharding']) != len(op['shape']):
      meta.pop('sharding')
    v = h.new_var(op['vtype'], op['shape'], op['fill'], meta)
    h.set_ref(h.node(op['obj']), op['name'], v)
  elif k == 'ref':
    nid = h.node(op['obj'])
    if op['kind'] == 'var' and h.vars:
      tgt = h.vars[op['target'] % len(h.vars)]
      if res is not None:
        res.probe('shared_variable')
    else:
      tgt = h.node(op['target'])
      if res is not None:
        res.probe('self_reference' if tgt == nid else 'shared_or_cyclic_node')
    h.set_ref(nid, op['name'], tgt)
  elif k == 'container':
    items = []
    for j, it in enumerate(op['items']):
      key = j if op['kind'] != 'dict' else 'k%d' % j
      if it['kind'] == 'newvar':
        items.append((key, ('ref', h.new_var('Param', [2], it['fill'], {}))))
        if res is not None and j >= 10:
          res.probe('long_list_container')
      elif it['kind'] == 'var' and h.vars:
        items.append((key, ('ref', h.vars[it['target'] % len(h.vars)])))
      elif it['kind'] == 'node':
        items.append((key, ('ref', h.node(it['target']))))
      else:
        items.append((key, ('static', it['target'] % 5)))
    h.set_container(h.node(op['obj']), op['name'], op['kind'], items)
    if res is not None:
      res.probe('pytree_container')
  elif k == 'generic':
    items = []
    for it in op['items']:
      if it['kind'] == 'newvar':
        items.append(('ref', h.new_var(it['vtype'], it['shape'], it['fill'], dict(it['meta']))))
      elif it['kind'] == 'var' and h.vars:
        items.append(('ref', h.vars[it['target'] % len(h.vars)]))
      elif it['kind'] == 'node':
        items.append(('ref', h.node(it['target'])))
      elif it['kind'] == 'array':
        items.append(('array', np.full(tuple(it['shape']), float(it['fill']), np.float32), it['jax']))
      else:
        items.append(('static', it.get('value', it['target'] % 5)))
    h.set_generic(h.node(op['obj']), op['name'], op['kind'], op['fields'], items, op.get('label'))
    if res is not None:
      res.probe('generic_pytree_container')
      if len(op['fields']) >= 3 and not order_is_involution(op['fields']):
        res.probe('generic_rotated_field_order')
  elif k == 'del':
    h.del_attr(h.node(op['obj']), op['name'])
  elif k == 'setmeta':
    if h.vars:
      i = h.vars[op['var'] % len(h.vars)]
      if op['value'] is None:
        if op['key'] in h.model[i].meta:
          delattr(h.real[i], op['key'])
          del h.model[i].meta[op['key']]
      else:
        value = HOOKS.get(op['value'], op['value']) if isinstance(op['value'], str) else op['value']
        setattr(h.real[i], op['key'], value)
        h.model[i].meta[op['key']] = value
      if res is not None:
        res.probe('metadata_edited_in_place')
  else:
    return False
  return True
