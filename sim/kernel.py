"""Simulator kernel shared by all engines (DESIGN.md section 3).

seed -> plan (JSON) -> execution -> event log -> digest.  One integer decides
everything: VERIF_SEED is the batch seed; run i of property P has run seed
sha256(batch_seed, P, i); named sub-streams are derived from the run seed so a
draw added to one stream never perturbs another; logging never draws.

This module is import-light (no jax / flax) so the parent driver starts fast.
"""
from __future__ import annotations

import hashlib
import json
import os
import random
import subprocess
import sys
import tempfile
import time

VERIF = os.path.dirname(os.path.dirname(os.path.abspath(__file__)))
PY = sys.executable


# --------------------------------------------------------------------------
# seeds, streams, digests


def run_seed(batch_seed: int, prop: str, i: int) -> int:
  h = hashlib.sha256(f'{batch_seed}|{prop}|{i}'.encode()).digest()
  return int.from_bytes(h[:8], 'big')


def stream(seed: int, name: str) -> random.Random:
  h = hashlib.sha256(f'{seed}|{name}'.encode()).digest()
  return random.Random(int.from_bytes(h[:8], 'big'))


def canon(obj):
  """Canonical JSON text: sorted keys, no whitespace, bytes as hex."""

  def default(o):
    if isinstance(o, (bytes, bytearray)):
      return {'__b': bytes(o).hex()}
    if isinstance(o, (set, frozenset)):
      return sorted(default(x) if not isinstance(x, (str, int, float)) else x for x in o)
    if isinstance(o, tuple):
      return list(o)
    try:
      import numpy as np

      if isinstance(o, np.generic):
        return o.item()
      if isinstance(o, np.ndarray):
        return {'__a': [str(o.dtype), list(o.shape), o.tobytes().hex()]}
    except ImportError:
      pass
    return repr(o)

  return json.dumps(obj, sort_keys=True, separators=(',', ':'), default=default)


def digest(obj) -> str:
  return hashlib.sha256(canon(obj).encode()).hexdigest()[:16]


class Violation(Exception):
  """An oracle says the property failed."""

  def __init__(self, kind: str, detail: str = '', **extra):
    super().__init__(f'{kind}: {detail}')
    self.kind = kind
    self.detail = detail
    self.extra = extra


class HarnessError(Exception):
  pass


def through_sut(e, markers=('/flax/', '/orbax/')):
  """True when the traceback of `e` passes through the system under test (so the exception is the
  system's behaviour, to be judged by an oracle) rather than being raised purely inside the harness."""
  tb = e.__traceback__
  while tb is not None:
    fn = tb.tb_frame.f_code.co_filename
    if any(m in fn for m in markers) and '/verif/' not in fn:
      return True
    tb = tb.tb_next
  return False


class Log:
  """Event log of one run.  Never holds addresses, ids, timestamps."""

  __slots__ = ('events',)

  def __init__(self):
    self.events = []

  def add(self, *ev):
    self.events.append(ev)

  def digest(self):
    return digest(self.events)


class Result:
  """Outcome of executing one plan."""

  def __init__(self):
    self.violation = None  # dict(kind, detail) or None
    self.digest = ''
    self.sched_digest = ''
    self.steps = 0  # scheduler steps / file operations: simulated time
    self.faults = {}  # kind -> count (counted where they FIRE)
    self.probes = {}  # named rare-branch counters
    self.nontrivial = False
    self.ops = 0
    self.extra = {}

  def fault(self, kind, n=1):
    self.faults[kind] = self.faults.get(kind, 0) + n

  def probe(self, name, n=1):
    self.probes[name] = self.probes.get(name, 0) + n

  def to_json(self):
    return dict(
      violation=self.violation,
      digest=self.digest,
      sched_digest=self.sched_digest,
      steps=self.steps,
      faults=self.faults,
      probes=self.probes,
      nontrivial=self.nontrivial,
      ops=self.ops,
      extra=self.extra,
    )


# --------------------------------------------------------------------------
# shrinking


def ddmin(items: list, test, min_len: int = 0):
  """Classic ddmin over a list; `test(sub)` returns True when the failure persists."""
  n = 2
  items = list(items)
  while len(items) > min_len and len(items) >= 1:
    chunk = max(1, len(items) // n)
    reduced = False
    i = 0
    while i < len(items):
      cand = items[:i] + items[i + chunk :]
      if len(cand) >= min_len and test(cand):
        items = cand
        n = max(n - 1, 2)
        reduced = True
      else:
        i += chunk
    if not reduced:
      if chunk == 1:
        break
      n = min(len(items), n * 2)
  return items


def shrink_plan(mod, plan, kind, budget_s=60.0):
  """Minimise `plan` while the same violation kind persists."""
  t0 = time.time()
  tests = [0]

  def fails(p):
    if time.time() - t0 > budget_s:
      return False
    tests[0] += 1
    try:
      r = mod.execute(p)
    except Exception:  # a broken candidate plan is simply not accepted
      return False
    return bool(r.violation) and r.violation['kind'] == kind

  best = json.loads(json.dumps(plan))
  # 1. ddmin on every list the module declares shrinkable
  for key in getattr(mod, 'SHRINK_LISTS', ['ops']):
    if isinstance(best.get(key), list) and best[key]:

      def t(sub, key=key):
        c = dict(best)
        c[key] = sub
        return fails(c)

      best[key] = ddmin(best[key], t)
  # 2. module-specific simplifications, to fixpoint
  simp = getattr(mod, 'simplify', None)
  if simp:
    progress = True
    while progress and time.time() - t0 < budget_s:
      progress = False
      for cand in simp(best):
        if fails(cand):
          best = cand
          progress = True
          break
  best['_shrink_tests'] = tests[0]
  return best


# --------------------------------------------------------------------------
# worker side


def load_prop(prop: str):
  import importlib

  return importlib.import_module(f'sim.props.{prop.lower()}')


def worker_main(argv):
  """argv: PROP TIER BATCH_SEED WORKER NWORKERS NRUNS DEADLINE_S OUTFILE MODE"""
  import faulthandler
  import gc

  prop, tier, batch_seed, w, nw, nruns, deadline_s, outfile, mode = argv
  batch_seed, w, nw, nruns = int(batch_seed), int(w), int(nw), int(nruns)
  deadline_s = float(deadline_s)
  faulthandler.enable()
  faulthandler.dump_traceback_later(deadline_s * 3 + 300, exit=True)
  t_start = time.time()
  mod = load_prop(prop)
  if hasattr(mod, 'setup_worker'):
    mod.setup_worker(w, tier)
  gc.collect()
  gc.freeze()  # import-time objects leave the collector's sight: explicit gc events stay cheap and deterministic
  gc.disable()
  agg = dict(
    runs=0, steps=0, ops=0, faults={}, probes={}, nontrivial=0, digests=[], sched=[],
    violations=[], samples=[], per_index=[], import_s=time.time() - t_start,
  )
  seen_nt = set()
  seen_sched = set()
  max_viol = 3
  n_unknown = 0
  known = load_known()
  known_hits = {}
  executed = []
  t0 = time.time()
  idxs = range(w, nruns, nw)
  gc_every = getattr(mod, 'GC_EVERY', 0)
  clear_every = getattr(mod, 'CLEAR_JAX_CACHES_EVERY', 0)
  for n, i in enumerate(idxs):
    if time.time() - t0 > deadline_s:
      agg['deadline_hit'] = True
      break
    rs = run_seed(batch_seed, prop, i)
    executed.append(i)
    plan = mod.generate(rs, tier)
    plan['run_seed'] = rs
    plan['index'] = i
    plan['property'] = prop
    if gc_every and n and n % gc_every == 0:
      # engines that build classes per run (cyclic garbage by construction) collect on a fixed, run-count-based schedule
      gc.collect()
    if clear_every and n and n % clear_every == 0:
      # compiled executables of dead lifted classes stay in jax's caches; a worker that keeps them all runs out of
      # memory mappings (vm.max_map_count) after a few hundred histories
      import jax

      jax.clear_caches()
      gc.collect()
    try:
      res = mod.execute(plan)
    except Exception as e:  # harness error: report apart from violations
      import traceback

      agg.setdefault('harness_errors', []).append(
        dict(index=i, run_seed=rs, error=repr(e), tb=traceback.format_exc()[-3000:], plan=plan)
      )
      if len(agg['harness_errors']) >= 3:
        break
      continue
    agg['runs'] += 1
    agg['steps'] += res.steps
    agg['ops'] += res.ops
    for k, v in res.faults.items():
      agg['faults'][k] = agg['faults'].get(k, 0) + v
    for k, v in res.probes.items():
      agg['probes'][k] = agg['probes'].get(k, 0) + v
    if res.nontrivial:
      agg['nontrivial'] += 1
      seen_nt.add(res.digest)
    if res.sched_digest:
      seen_sched.add(res.sched_digest)
    if mode == 'digests':
      agg['per_index'].append([i, res.digest])
    if len(agg['samples']) < 3 and (n in (0, 1) or (res.faults and not any(s.get('_faulted') for s in agg['samples']))):
      s = json.loads(canon(plan))
      s['_faulted'] = bool(res.faults)
      s['_digest'] = res.digest
      agg['samples'].append(s)
    if res.violation:
      v = dict(res.violation)
      kind = v['kind']
      sig0 = mod.signature(plan, v) if hasattr(mod, 'signature') else {}
      f0 = match_known(prop, dict(kind=kind, signature=sig0), known)
      if f0 is not None and f0['id'] in known_hits:
        # a listed finding already minimised once in this worker: count it, do not shrink it again
        known_hits[f0['id']] += 1
        continue
      plan0 = getattr(res, 'replay_plan', None) or plan
      small = shrink_plan(mod, plan0, kind, budget_s=float(os.environ.get('VERIF_SHRINK_S', '45')) if f0 is None else 3.0)
      r2 = mod.execute(small)
      if not r2.violation or r2.violation['kind'] != kind:
        small = plan0
        r2 = mod.execute(small)
      if r2.violation:
        v = dict(r2.violation)
      small['expect'] = dict(kind=v['kind'], detail=v.get('detail', ''), digest=r2.digest)
      small['property'] = prop
      if getattr(mod, 'CROSS_RUN_STATE', True) and f0 is None:
        # properties about hidden process state: a violation may depend on what EARLIER runs of this worker
        # process left behind.  Confirm in a fresh interpreter; fall back to the unshrunk plan, then to a
        # replay file that carries the preceding runs of this process as a prelude (shortest suffix that fails).
        small = _confirm_fresh(mod, prop, tier, batch_seed, small, plan0, kind, executed, outfile)
        v = dict(kind=small['expect']['kind'], detail=small['expect']['detail'], last_fault=v.get('last_fault'))
      sig = mod.signature(small, v) if hasattr(mod, 'signature') else {}
      agg['violations'].append(dict(index=i, run_seed=rs, kind=v['kind'], detail=v.get('detail', ''), plan=small, signature=sig, orig_ops=len(plan.get('ops', []))))
      f1 = match_known(prop, dict(kind=v['kind'], signature=sig), known)
      if f1 is not None:
        known_hits[f1['id']] = known_hits.get(f1['id'], 0) + 1
        continue
      n_unknown += 1
      if n_unknown >= max_viol:
        agg['stopped_after_violations'] = True
        break
    if hasattr(mod, 'between_runs'):
      mod.between_runs(n)
  agg['digests'] = sorted(seen_nt)
  agg['known_hits'] = known_hits
  agg['sched'] = len(seen_sched)
  agg['sched_digests'] = sorted(seen_sched)[:200000]
  agg['wall_s'] = time.time() - t0
  with open(outfile, 'w') as f:
    f.write(canon(agg))
  faulthandler.cancel_dump_traceback_later()
  if hasattr(mod, 'teardown_worker'):
    mod.teardown_worker()
  sys.stdout.flush()
  os._exit(0)  # native threads of jax/tf must not delay exit


def _fresh(plan, tmp):
  with open(tmp, 'w') as f:
    json.dump(plan, f, default=str)
  try:
    return replay_file(tmp, timeout=900)
  except Exception as e:  # noqa: BLE001
    return dict(violation=None, digest='', error=repr(e))


def _confirm_fresh(mod, prop, tier, batch_seed, small, plan0, kind, executed, outfile):
  tmp = outfile + '.replay.json'

  def ok(rr, p):
    return bool(rr.get('violation')) and rr['violation']['kind'] == kind

  rr = _fresh(small, tmp)
  if ok(rr, small):
    small['expect'] = dict(kind=kind, detail=rr['violation'].get('detail', ''), digest=rr['digest'])
    return small
  cand = json.loads(canon(plan0))
  cand['property'] = prop
  rr = _fresh(cand, tmp)
  if ok(rr, cand):
    cand['expect'] = dict(kind=kind, detail=rr['violation'].get('detail', ''), digest=rr['digest'])
    cand['_note'] = 'unshrunk: the minimised plan failed only in the polluted worker process'
    return cand
  prev = executed[:-1]
  k = 1
  tried = 0
  while prev and tried < 12:
    pre = prev[-k:]
    cand = json.loads(canon(plan0))
    cand['property'] = prop
    cand['prelude'] = dict(batch_seed=batch_seed, tier=tier, indices=pre)
    rr = _fresh(cand, tmp)
    tried += 1
    if ok(rr, cand):
      cand['expect'] = dict(kind=kind, detail=rr['violation'].get('detail', ''), digest=rr['digest'])
      cand['_note'] = f'needs the {len(pre)} preceding run(s) of the same process as prelude: hidden state leaked across histories'
      return cand
    if k >= len(prev):
      break
    k = min(len(prev), k * 4)
  small['_note'] = 'did not reproduce in a fresh interpreter, alone or after the preceding runs'
  return small


def replay_main(path):
  """Executes a replay file in this (fresh) interpreter; prints one JSON line."""
  plan = json.load(open(path))
  mod = load_prop(plan['property'])
  if hasattr(mod, 'setup_worker'):
    mod.setup_worker(0, 'replay')
  import gc

  gc.collect()
  gc.freeze()
  gc.disable()
  pre = plan.get('prelude')
  if pre:
    for i in pre['indices']:
      try:
        mod.execute(mod.generate(run_seed(pre['batch_seed'], plan['property'], i), pre['tier']))
      except Exception:  # noqa: BLE001
        pass
  res = mod.execute(plan)
  out = dict(violation=res.violation, digest=res.digest)
  print('REPLAY-RESULT ' + canon(out))
  sys.stdout.flush()
  os._exit(0)


# --------------------------------------------------------------------------
# parent side


def env_for_worker(hashseed='0', extra=None):
  env = dict(os.environ)
  env['PYTHONHASHSEED'] = str(hashseed)
  env['PYTHONPATH'] = VERIF + os.pathsep + env.get('PYTHONPATH', '')
  env.setdefault('TF_CPP_MIN_LOG_LEVEL', '3')
  env.setdefault('JAX_PLATFORMS', 'cpu')
  env['PYTHONDONTWRITEBYTECODE'] = '1'
  env['OMP_NUM_THREADS'] = '1'
  env['OPENBLAS_NUM_THREADS'] = '1'
  env['XLA_FLAGS'] = env.get('XLA_FLAGS', '') + ' --xla_cpu_multi_thread_eigen=false intra_op_parallelism_threads=1'
  env['XLA_FLAGS'] = env['XLA_FLAGS'].replace(' intra_op_parallelism_threads=1', '')
  if extra:
    env.update(extra)
  return env


def spawn_workers(prop, tier, batch_seed, nworkers, nruns, deadline_s, mode='run', hashseed='0', extra_env=None, scratch=None):
  procs = []
  outs = []
  for w in range(nworkers):
    out = os.path.join(scratch, f'w{w}.json')
    outs.append(out)
    cmd = [PY, os.path.join(VERIF, 'sim', 'worker.py'), prop, tier, str(batch_seed), str(w), str(nworkers), str(nruns), str(deadline_s), out, mode]
    errf = open(os.path.join(scratch, f'w{w}.err'), 'w')
    extra_env = dict(extra_env or {}, VERIF_WORKER_SCRATCH=os.path.join(scratch, f'ws{w}'))
    procs.append((subprocess.Popen(cmd, env=env_for_worker(hashseed, extra_env), stdout=errf, stderr=subprocess.STDOUT, cwd=VERIF), errf))
  hard = time.time() + deadline_s * 3 + 240
  results = []
  errors = []
  for w, (p, errf) in enumerate(procs):
    left = max(1.0, hard - time.time())
    try:
      rc = p.wait(timeout=left)
    except subprocess.TimeoutExpired:
      p.kill()
      p.wait()
      rc = -9
    errf.close()
    if rc != 0 or not os.path.exists(outs[w]):
      tail = open(os.path.join(scratch, f'w{w}.err')).read()[-3000:]
      errors.append(f'worker {w} rc={rc}: {tail}')
      continue
    results.append(json.load(open(outs[w])))
  return results, errors


def merge(results):
  tot = dict(runs=0, steps=0, ops=0, faults={}, probes={}, nontrivial=0, violations=[], samples=[], harness_errors=[], wall_s=0.0, per_index={}, import_s=0.0)
  dig = set()
  sched = set()
  for r in results:
    tot['runs'] += r['runs']
    tot['steps'] += r['steps']
    tot['ops'] += r['ops']
    tot['nontrivial'] += r['nontrivial']
    for k, v in r['faults'].items():
      tot['faults'][k] = tot['faults'].get(k, 0) + v
    for k, v in r['probes'].items():
      tot['probes'][k] = tot['probes'].get(k, 0) + v
    dig.update(r['digests'])
    sched.update(r.get('sched_digests', []))
    tot['violations'] += r['violations']
    tot['harness_errors'] += r.get('harness_errors', [])
    tot['wall_s'] = max(tot['wall_s'], r['wall_s'])
    tot['import_s'] = max(tot['import_s'], r.get('import_s', 0))
    for i, d in r.get('per_index', []):
      tot['per_index'][i] = d
    if r.get('deadline_hit'):
      tot['deadline_hit'] = True
    for k, v in r.get('known_hits', {}).items():
      tot.setdefault('known_hits', {})[k] = tot.setdefault('known_hits', {}).get(k, 0) + v
  for r in results:
    for s in r['samples']:
      if len(tot['samples']) < 3:
        tot['samples'].append(s)
  # prefer to have one faulted sample
  if not any(s.get('_faulted') for s in tot['samples']):
    for r in results:
      for s in r['samples']:
        if s.get('_faulted'):
          tot['samples'][-1:] = [s]
          break
      else:
        continue
      break
  tot['distinct_nontrivial'] = len(dig)
  tot['distinct_schedules'] = len(sched)
  return tot


def replay_file(path, extra_env=None, timeout=600):
  cmd = [PY, os.path.join(VERIF, 'sim', 'worker.py'), '--replay', path]
  p = subprocess.run(cmd, env=env_for_worker('0', extra_env), capture_output=True, text=True, cwd=VERIF, timeout=timeout)
  for line in p.stdout.splitlines():
    if line.startswith('REPLAY-RESULT '):
      return json.loads(line[len('REPLAY-RESULT ') :])
  raise HarnessError(f'replay produced no result (rc={p.returncode}): {p.stdout[-1500:]} {p.stderr[-1500:]}')


def load_known():
  p = os.path.join(VERIF, 'known_findings.json')
  if not os.path.exists(p):
    return []
  return [f for f in json.load(open(p)).get('findings', []) if f.get('status', 'open') == 'open']


def match_known(prop, viol, known):
  for f in known:
    if f['property'] != prop:
      continue
    if viol['kind'] not in f['kind']:
      continue
    sig = viol.get('signature') or {}
    if all((sig.get(k) in v) if isinstance(v, list) else (sig.get(k) == v) for k, v in f.get('signature', {}).items()):
      return f
  return None
