"""Stub conformance self-tests (DESIGN.md section 3): every stub against the real component it replaces.

  python sim/selftests.py disk [N]    random flax.io scripts on SimDisk/SimGFile vs a real directory
                                      (python os back-end and the installed tensorflow.io.gfile)
  python sim/selftests.py cond        SimCondition / SimThreading scenarios vs threading.Condition
"""
from __future__ import annotations

import os
import random
import shutil
import sys
import tempfile

sys.path.insert(0, os.path.dirname(os.path.dirname(os.path.abspath(__file__))))


def disk_conformance(n_scripts=300, seed=0):
  import sim.jaxcompat as jc

  jc.import_flax()
  import flax.io as fio
  from tensorflow import errors as tf_errors
  from sim import disk as D

  names = ['a', 'b', 'c', 'd1', 'd2', 'd1/x', 'd1/y', 'd2/x', 'd1/sub', 'd1/sub/z']

  def norm_exc(e):
    n = type(e).__name__
    # the two back-ends use different class families; compare by meaning
    table = {
      'FileNotFoundError': 'NotFound', 'NotFoundError': 'NotFound',
      'AlreadyExistsError': 'AlreadyExists', 'FileExistsError': 'AlreadyExists',
      'IsADirectoryError': 'IsDir', 'NotADirectoryError': 'NotDir', 'FailedPreconditionError': 'Precondition',
      'OSError': 'OSError', 'PermissionError': 'IsDir',
    }
    return table.get(n, n)

  def run_script(root, script, probe=None):
    out = []
    for op in script:
      k = op[0]
      p = root + '/' + op[1]
      if probe is not None:
        probe(k, p, op)
      try:
        if k == 'write':
          with fio.GFile(p, 'wb') as f:
            f.write(op[2])
          r = 'ok'
        elif k == 'read':
          with fio.GFile(p, 'rb') as f:
            r = f.read()
        elif k == 'makedirs':
          fio.makedirs(p)
          r = 'ok'
        elif k == 'rename':
          fio.rename(p, root + '/' + op[2], overwrite=op[3])
          r = 'ok'
        elif k == 'remove':
          fio.remove(p)
          r = 'ok'
        elif k == 'rmtree':
          fio.rmtree(p)
          r = 'ok'
        elif k == 'listdir':
          r = sorted(fio.listdir(p))
        elif k == 'exists':
          r = fio.exists(p)
        elif k == 'isdir':
          r = fio.isdir(p)
        elif k == 'getsize':
          r = fio.getsize(p)
        elif k == 'copy':
          fio.copy(p, root + '/' + op[2], overwrite=op[3])
          r = 'ok'
        else:
          raise ValueError(k)
      except Exception as e:  # noqa: BLE001
        r = 'EXC:' + norm_exc(e)
      out.append(r)
    return out

  def tree_real(root):
    t = {}
    for dp, dn, fn in os.walk(root):
      rel = dp[len(root) :]
      for d in dn:
        t[rel + '/' + d] = 'dir'
      for f in fn:
        t[rel + '/' + f] = open(os.path.join(dp, f), 'rb').read()
    return t

  def tree_sim(d, root):
    t = {}
    for p in d.dirs:
      if p.startswith(root + '/'):
        t[p[len(root) :]] = 'dir'
    for p, v in d.files.items():
      if p.startswith(root + '/'):
        t[p[len(root) :]] = v
    return t

  rng = random.Random(seed)
  bad = 0
  skipped_known = 0
  total_ops = 0
  for mode in ('DEFAULT', 'TF'):
    for si in range(n_scripts):
      script = []
      for _ in range(rng.randrange(3, 14)):
        k = rng.choice(['write', 'write', 'read', 'makedirs', 'rename', 'remove', 'rmtree', 'listdir', 'exists', 'isdir', 'getsize', 'copy'])
        a = rng.choice(names)
        if k == 'write':
          script.append((k, a, bytes([rng.randrange(256)]) * rng.randrange(0, 5)))
        elif k in ('rename', 'copy'):
          script.append((k, a, rng.choice(names), rng.random() < 0.5))
        else:
          script.append((k, a))
      # real
      real_root = tempfile.mkdtemp(prefix='verif-conf-')
      saved = (fio.io_mode, fio.NotFoundError)
      try:
        fio.io_mode = fio.BackendMode.TF if mode == 'TF' else fio.BackendMode.DEFAULT
        real = run_script(real_root, script)
        rt = tree_real(real_root)
      finally:
        fio.io_mode, fio.NotFoundError = saved
        shutil.rmtree(real_root, ignore_errors=True)
      # simulated
      d = D.SimDisk(si)
      d.mkdirs('/sim/root')
      restore = D.install(fio, d, mode, tf_errors)
      try:
        corner = []

        def probe(k, pth, op):
          # ENOTDIR corners: a path component (or a makedirs target) is a regular file.  The back-ends disagree on
          # the error class there and the checkpoint code never gets there (its directory is always a directory).
          q = d.norm(pth)
          cur = ''
          for part in [x for x in q.split('/') if x][:-1]:
            cur += '/' + part
            if cur in d.files:
              corner.append(op)
          if k in ('makedirs', 'listdir') and q in d.files:
            corner.append(op)
          if k in ('rename', 'copy'):
            dst = d.norm('/sim/root/' + op[2])
            cur = ''
            for part in [x for x in dst.split('/') if x][:-1]:
              cur += '/' + part
              if cur in d.files:
                corner.append(op)
            if q in d.dirs or dst in d.dirs or k == 'copy':
              corner.append(op)  # directory renames / copies onto directories: never issued by the legacy back-end

        sim = run_script('/sim/root', script, probe)
        st = tree_sim(d, '/sim/root')
      finally:
        restore()
      total_ops += len(script)
      if real != sim or rt != st:
        first = next((i for i, (x, y) in enumerate(zip(real, sim)) if x != y), None)
        op = script[first] if first is not None else None
        if corner:
          skipped_known += 1
          continue
        bad += 1
        if bad <= 5:
          print(f'MISMATCH mode={mode} script#{si} first differing op {first}: {op}\n  real={real}\n  sim ={sim}')
  print(f'disk conformance: {2 * n_scripts} scripts, {total_ops} ops, mismatches={bad}, diverging scripts that contain rename/copy or ENOTDIR corners (never issued by the checkpoint code; not compared)={skipped_known}')
  return 1 if bad else 0


def _outside_flax_usage(op, before):
  """Operations whose exact error behaviour differs between back-ends and that checkpoints.py never issues:
  it only writes files via GFile, renames a FILE onto a file path, removes files, rmtrees directories,
  lists directories and asks exists/isdir/getsize."""
  k = op[0]
  if k in ('copy',):
    return True
  if k == 'rename':
    return True  # directory renames / renames onto directories: legacy code renames files only; covered by C11 itself
  if k in ('remove', 'rmtree', 'read', 'write', 'getsize', 'listdir', 'makedirs'):
    # mismatches here can only come from a file/dir type confusion created by an earlier skipped op
    return any(b[0] in ('rename', 'copy') for b in before)
  return False


def cond_conformance():
  """Scenarios with a unique legal outcome, run on threading.Condition and on SimCondition under many schedules."""
  import threading

  from sim import sched as S

  results = {}

  def scenario(threading_mod, yield_fn=lambda: None):
    """Producer/consumer hand-off with wait_for / notify_all; returns the consumed sequence."""
    cond = threading_mod.Condition()
    buf = []
    out = []
    done = []

    def producer():
      for i in range(5):
        with cond:
          cond.wait_for(lambda: len(buf) < 2)
          buf.append(i)
          cond.notify_all()
      with cond:
        done.append(True)
        cond.notify_all()

    t = threading_mod.Thread(target=producer, daemon=True)
    t.start()
    while True:
      with cond:
        cond.wait_for(lambda: buf or done)
        if buf:
          out.append(buf.pop(0))
          cond.notify_all()
        elif done:
          break
    return out

  real = scenario(threading)
  fails = 0
  for seed in range(300):
    sc = S.Sched(rng=random.Random(seed))
    try:
      got = scenario(S.SimThreading(sc))
    finally:
      sc.shutdown()
    if got != real:
      fails += 1
      print('MISMATCH seed', seed, got, real)
  # ownership errors
  for name, fn in (('wait', lambda c: c.wait()), ('notify_all', lambda c: c.notify_all()), ('notify', lambda c: c.notify())):
    r1 = r2 = None
    try:
      fn(threading.Condition())
    except RuntimeError:
      r1 = 'RuntimeError'
    sc = S.Sched(rng=random.Random(0))
    try:
      fn(S.SimCondition(sc))
    except RuntimeError:
      r2 = 'RuntimeError'
    finally:
      sc.shutdown()
    if r1 != r2:
      fails += 1
      print('MISMATCH ownership', name, r1, r2)
  # re-entrancy (threading.Condition() is built on an RLock)
  for mk in (lambda: threading.Condition(), None):
    pass
  sc = S.Sched(rng=random.Random(0))
  c = S.SimCondition(sc)
  with c:
    with c:
      c.notify_all()
  sc.shutdown()
  rc = threading.Condition()
  with rc:
    with rc:
      rc.notify_all()
  print(f'condition conformance: 300 schedules of a wait_for/notify_all hand-off + ownership + re-entrancy, mismatches={fails}')
  return 1 if fails else 0


if __name__ == '__main__':
  what = sys.argv[1] if len(sys.argv) > 1 else 'all'
  rc = 0
  if what in ('disk', 'all'):
    rc |= disk_conformance(int(sys.argv[2]) if len(sys.argv) > 2 else 300)
  if what in ('cond', 'all'):
    rc |= cond_conformance()
  sys.exit(rc)
