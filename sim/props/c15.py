"""C15 - FrozenDict and struct dataclasses are immutable values and faithful pytrees.

valueworld: a heap of source dicts, FrozenDicts and everything any API call ever returned.  The
simulator's faults are *foreign mutations*: at any point of an API-call history any plain dict the
world holds (a source after freezing, a dict returned by unfreeze, the argument of copy, a value
handed out by indexing or iteration if it is a plain dict) is mutated.  Invariant after every
operation: every FrozenDict ever created still equals the deep copy recorded at its birth and
hashes as before.  struct part: jit retrace histories over instances whose static/dynamic fields change.
"""
from __future__ import annotations

import pickle

from sim import kernel
from sim.kernel import Result, Violation, stream

PROP = 'C15'
TIERS = {
  'quick': dict(runs=60000, deadline=45, workers=16),
  'thorough': dict(runs=1500000, deadline=780, workers=16),
}
SELFTEST_RUNS = 400
RULE = (
  'each run = one history (<= 25 ops) over a heap of nested source dicts (depth <= 4; int/str/tuple/array/list leaves), '
  'FrozenDicts and API results: freeze, FrozenDict(src), unfreeze, copy(add_or_replace; the argument a dict, a FrozenDict or a '
  'MappingProxyType / UserDict / ChainMap view over a dict the world keeps mutating), pop, indexing, items/values/keys '
  'iteration, pickle round trip, pytree flatten/unflatten, tree_map, equality+hash across insertion orders, mutation '
  'attempts through the API, interleaved with foreign mutations (the injected fault) of any plain dict the world holds; '
  'struct runs: generated field layouts (optionally below a generated base class: a plain frozen / non-frozen '
  '@dataclasses.dataclass, a struct parent, a frozen=False struct parent - a non-frozen base must either be refused at class '
  'definition or still give frozen instances), replace/assign, pytree leaves, tree_map/vmap/grad reconstruction, and call histories '
  'of one jitted function with a Python-side trace counter. Non-trivial = at least one foreign mutation fired or >= 3 API '
  'ops executed on a FrozenDict / struct instance; distinct = distinct event-log digest.'
)
STEP_UNIT = 'API operations and foreign mutations'
COMPONENTS = {'real': ['a second real interpreter per worker with another PYTHONHASHSEED (pickle peer)', 'flax/core/frozen_dict.py (all of it)', 'flax/struct.py (dataclass, PyTreeNode, field)', 'jax pytree registry / jax.jit trace cache'], 'stub': []}
ASSUMPTIONS = [
  'lists and arrays stored as leaves are shared by design (only nested *dicts* are promised to be unshared); the harness never mutates them',
  'the raw result of FrozenDict.tree_flatten_with_keys (an internal pytree-protocol method) is not mutated; flattening goes through jax.tree_util',
  'hash checks only where every leaf is hashable',
]
PROBES = ['mutation_of_source_after_freeze', 'mutation_of_unfreeze_result', 'mutation_of_copy_argument', 'hash_checked', 'order_variant', 'pickle_roundtrip', 'struct_runs', 'retrace_on_static_change', 'cache_hit_on_dynamic_change', 'nested_frozen_in_source', 'struct_shared_metadata', 'hash_unhashable_raises', 'pickle_to_peer_interpreter', 'ctor_extend', 'struct_slots', 'copy_arg_mapping_wrapper', 'mutation_behind_mapping_wrapper', 'struct_inherited_layout', 'struct_unfrozen_base_refused', 'struct_frozen_checked']


def setup_worker(w, tier):
  global np, jax, jnp, fd_mod, FrozenDict, struct, dataclasses
  import sim.jaxcompat as jc

  jc.import_flax()
  import dataclasses
  import warnings

  import numpy as np
  import jax
  import jax.numpy as jnp
  from flax.core import frozen_dict as fd_mod
  from flax.core.frozen_dict import FrozenDict
  from flax import struct

  warnings.simplefilter('ignore')


KEYS = ['a', 'b', 'c', 'params', 'k1', 'z', 'batch_stats', 'w']

# ---- a peer interpreter with a different string-hash salt: pickles travel to it and back ---------------------------
PEER = [None]
PEER_HASHSEED = '4242'
PEER_CODE = r'''
import os, sys, pickle, struct
out = os.fdopen(os.dup(1), 'wb')
os.dup2(2, 1)  # stray prints of imported libraries must not corrupt the protocol stream
sys.path.insert(0, sys.argv[1])
from sim.props import c15
c15.setup_worker(0, 'peer')
from flax.core.frozen_dict import FrozenDict, freeze
inp = sys.stdin.buffer
while True:
  h = inp.read(4)
  if len(h) < 4:
    break
  data = inp.read(struct.unpack('<I', h)[0])
  try:
    obj, plain_src, hashable = pickle.loads(data)
    fresh = freeze(plain_src)
    r = dict(type=type(obj).__name__, plain_eq=c15.plain(obj) == c15.plain(fresh))
    if hashable:
      r.update(eq=bool(obj == fresh), hash_eq=hash(obj) == hash(fresh), lookup=obj in {fresh: 1} and fresh in {obj: 1})
    r['back'] = pickle.dumps(obj)
  except BaseException as e:
    r = dict(error=type(e).__name__ + ': ' + str(e)[:300])
  b = pickle.dumps(r)
  out.write(struct.pack('<I', len(b)) + b)
  out.flush()
'''


def peer_roundtrip(fd, plain_src, hashable):
  import os
  import struct as _st
  import subprocess
  import sys

  if PEER[0] is None or PEER[0].poll() is not None:
    env = dict(os.environ, PYTHONHASHSEED=PEER_HASHSEED)
    root = os.path.dirname(os.path.dirname(os.path.dirname(os.path.abspath(__file__))))
    PEER[0] = subprocess.Popen([sys.executable, '-c', PEER_CODE, root], stdin=subprocess.PIPE, stdout=subprocess.PIPE, stderr=subprocess.DEVNULL, env=env)
  p = PEER[0]
  b = pickle.dumps((fd, plain_src, hashable))
  try:
    p.stdin.write(_st.pack('<I', len(b)) + b)
    p.stdin.flush()
    h = p.stdout.read(4)
    if len(h) < 4:
      raise kernel.HarnessError('peer interpreter died')
    return pickle.loads(p.stdout.read(_st.unpack('<I', h)[0]))
  except (BrokenPipeError, OSError) as e:
    raise kernel.HarnessError(f'peer interpreter: {e!r}')


def teardown_worker():
  p = PEER[0]
  if p is not None and p.poll() is None:
    try:
      p.stdin.close()
      p.wait(timeout=5)
    except Exception:  # noqa: BLE001
      p.kill()
  PEER[0] = None


def gen_tree(g, depth, hashable):
  """JSON spec of a nested dict: {'d': {key: spec}} | leaf specs."""
  n = g.randrange(0, 4) if depth > 0 else g.randrange(1, 3)
  out = {}
  ks = g.sample(KEYS, n)
  for k in ks:
    r = g.random()
    if depth < 3 and r < 0.4:
      out[k] = gen_tree(g, depth + 1, hashable)
    elif r < 0.6:
      out[k] = {'i': g.randrange(-5, 50)}
    elif r < 0.7:
      out[k] = {'s': g.choice(['x', 'yy', ''])}
    elif r < 0.8:
      out[k] = {'t': [g.randrange(5), g.randrange(5)]}
    elif hashable or r < 0.9:
      out[k] = {'i': g.randrange(100, 200)}
    elif r < 0.95:
      out[k] = {'arr': [g.randrange(1, 4), g.randrange(0, 9)]}
    else:
      out[k] = {'l': [g.randrange(5)]}
  # a list of pairs, not a dict: insertion order is part of the test and must survive JSON round trips
  return {'d': [[k, out[k]] for k in ks]}


COPY_WRAPS = [None, None, 'proxy', 'userdict', 'chainmap', 'chainmap_child']
# base class kinds of generated struct layouts; the first two are not frozen
STRUCT_PARENTS = ['plain', 'struct_unfrozen', 'plain_frozen', 'struct']
UNFROZEN_PARENTS = ('plain', 'struct_unfrozen')


def generate(rs, tier):
  g = stream(rs, 'gen')
  if g.random() < 0.18:
    return gen_struct(g)
  hashable = g.random() < 0.5
  nsrc = g.randrange(1, 4)
  srcs = [gen_tree(g, 0, hashable) for _ in range(nsrc)]
  ops = []
  for _ in range(g.randrange(3, 26)):
    r = g.random()
    a, b, c = g.randrange(64), g.randrange(64), g.randrange(64)
    if r < 0.16:
      ops.append(dict(op=g.choice(['freeze', 'ctor', 'ctor_kwargs', 'ctor_extend']), src=a, embed=g.random() < 0.25, fd=b))
    elif r < 0.26:
      ops.append(dict(op='unfreeze', fd=a, how=g.choice(['method', 'fn'])))
    elif r < 0.36:
      ops.append(dict(op='copy', fd=a, add=b, how=g.choice(['method', 'fn']), add_kind=g.choice(['dict', 'fd', 'mutable'])))
      # add_or_replace is annotated Mapping: sometimes a read-only view / UserDict / ChainMap over the dict, not the dict itself
      ops[-1]['wrap'] = g.choice(COPY_WRAPS)
    elif r < 0.44:
      ops.append(dict(op='pop', fd=a, key=b, how=g.choice(['method', 'fn'])))
    elif r < 0.54:
      ops.append(dict(op='index', fd=a, path=[b, c]))
    elif r < 0.62:
      ops.append(dict(op='iterate', fd=a, how=g.choice(['items', 'values', 'keys', 'iter'])))
    elif r < 0.67:
      ops.append(dict(op='pickle', fd=a))
      if g.random() < 0.35:
        # the pickle travels to another interpreter (different string-hash salt) and back
        ops[-1]['peer'] = True
        ops[-1]['warm'] = g.random() < 0.6
    elif r < 0.75:
      ops.append(dict(op='pytree', fd=a, how=g.choice(['flatten', 'tree_map', 'leaves_order', 'with_path'])))
    elif r < 0.79:
      ops.append(dict(op='order', fd=a, seed=b))
    elif r < 0.81:
      ops.append(dict(op='hash_attempt', fd=a, times=g.choice([2, 3])))
    elif r < 0.87:
      ops.append(dict(op='api_mutate', fd=a, how=g.choice(['setitem', 'delitem', 'setattr', 'update', 'inner_setitem', 'clear'])))
    else:
      ops.append(dict(op='mutate', target=a, where=[b, c], how=g.choice(['set', 'del', 'clear', 'nest', 'overwrite'])))
  return dict(engine='valueworld', knobs=dict(kind='frozen', hashable=hashable, srcs=srcs), ops=ops)


def gen_struct(g):
  nf = g.randrange(1, 5)
  fields = []
  for i in range(nf):
    fields.append(dict(name=f'f{i}', static=g.random() < 0.4, shape=g.choice([[], [2], [2, 3]])))
  if all(f['static'] for f in fields):
    fields[0]['static'] = False
  ops = []
  for _ in range(g.randrange(3, 14)):
    r = g.random()
    a, b = g.randrange(64), g.randrange(64)
    if r < 0.3:
      ops.append(dict(op='replace', inst=a, field=b, val=g.randrange(1, 6)))
    elif r < 0.5:
      ops.append(dict(op='call_jit', inst=a))
    elif r < 0.6:
      ops.append(dict(op='assign', inst=a, field=b))
    elif r < 0.7:
      ops.append(dict(op='leaves', inst=a))
    elif r < 0.8:
      ops.append(dict(op='tree_map', inst=a))
    elif r < 0.88:
      ops.append(dict(op='vmap', inst=a))
    elif r < 0.94:
      ops.append(dict(op='grad', inst=a))
    else:
      ops.append(dict(op='new', val=g.randrange(1, 6)))
  knobs = dict(kind='struct', fields=fields, base=g.choice(['dataclass', 'PyTreeNode', 'dataclass_slots']), meta=g.choice([None, None, 'fresh', 'shared']))
  # class hierarchies: the generated class (which never passes frozen=False itself) sits below a generated base class
  knobs['parent'] = None
  if g.random() < 0.45:
    pfields = [dict(name=f'p{i}', static=g.random() < 0.3, shape=g.choice([[], [2], [2, 3]])) for i in range(g.randrange(1, 3))]
    knobs['parent'] = dict(kind=g.choice(STRUCT_PARENTS), fields=pfields)
  return dict(engine='valueworld', knobs=knobs, ops=ops)


SHRINK_LISTS = ['ops']


def simplify(plan):
  k = plan['knobs']
  if k['kind'] == 'frozen' and len(k['srcs']) > 1:
    yield dict(plan, knobs=dict(k, srcs=k['srcs'][:1]))


def signature(plan, v):
  return dict(kind=plan['knobs']['kind'])


# --------------------------------------------------------------------------


def build(spec):
  if 'd' in spec:
    return {k: build(v) for k, v in spec['d']}
  if 'i' in spec:
    return spec['i']
  if 's' in spec:
    return spec['s']
  if 't' in spec:
    return tuple(spec['t'])
  if 'arr' in spec:
    return np.arange(spec['arr'][0], dtype=np.float32) + spec['arr'][1]
  if 'l' in spec:
    return list(spec['l'])
  raise ValueError(spec)


def is_map(x):
  return isinstance(x, (dict, FrozenDict))


def plain(x):
  """Deep, API-only copy of a (Frozen)dict into plain dicts with canonical leaves."""
  if is_map(x):
    return {k: plain(x[k]) for k in x}
  if isinstance(x, np.ndarray) or hasattr(x, 'dtype'):
    a = np.asarray(x)
    return ('arr', str(a.dtype), a.shape, a.tobytes())
  if isinstance(x, list):
    return ('list', tuple(x))
  return x


def nested_dicts(x, out):
  """All plain dict objects reachable from x through plain dicts (identity list)."""
  if isinstance(x, dict):
    out.append(x)
    for v in x.values():
      nested_dicts(v, out)
  return out


class FWorld:
  def __init__(self, plan, res, log):
    self.plan, self.res, self.log = plan, res, log
    self.hashable = plan['knobs']['hashable']
    self.sources = [build(s) for s in plan['knobs']['srcs']]
    self.fds = []  # (FrozenDict, birth plain copy, birth hash or None, origin)
    self.mutables = []  # (plain dict object, origin label)
    self.api_ops = 0
    for s in self.sources:
      for d in nested_dicts(s, []):
        self.mutables.append((d, 'source'))

  def track(self, fd, origin):
    if not isinstance(fd, FrozenDict):
      return
    for f, _, _, _ in self.fds:
      if f is fd:
        return
    h = None
    if self.hashable:
      try:
        h = hash(fd)
        self.res.probe('hash_checked')
      except TypeError:
        h = None
    self.fds.append((fd, plain(fd), h, origin))

  def handed_out(self, v, origin):
    """Anything an API call returned: FrozenDicts are tracked; plain dicts are fair game for foreign mutation."""
    if isinstance(v, FrozenDict):
      self.track(v, origin)
    elif isinstance(v, dict):
      for d in nested_dicts(v, []):
        self.mutables.append((d, origin))

  def invariant(self, oi, op):
    for i, (fd, birth, h, origin) in enumerate(self.fds):
      now = plain(fd)
      if now != birth:
        raise Violation('frozendict-changed', f'after op {oi} {op}: FrozenDict #{i} (from {origin}) changed: {_short(birth)} -> {_short(now)}')
      if h is not None and hash(fd) != h:
        raise Violation('hash-changed', f'after op {oi} {op}: hash of FrozenDict #{i} changed')

  def pick_fd(self, i):
    if not self.fds:
      fd = fd_mod.freeze(self.sources[0])
      self.track(fd, 'freeze')
    return self.fds[i % len(self.fds)][0]

  def step(self, oi, op):
    k = op['op']
    res = self.res
    if k == 'ctor_extend':
      # FrozenDict(existing_frozen_dict, extra=...): the dict constructor signature; base may have been flattened,
      # hashed, iterated before
      base = self.pick_fd(op['fd'])
      extra = {'zz_extra': 7, 'a_extra': (1, 2)}
      if op['embed']:
        jax.tree_util.tree_leaves(base)
        hash_ok = self.hashable
        if hash_ok:
          hash(base)
      fd = FrozenDict(base, **extra)
      want = dict(_plain_tree(base))
      want.update(extra)
      if plain(fd) != plain(want):
        raise Violation('freeze-wrong-content', f'op {oi}: FrozenDict(fd, **extra) differs from dict(fd, **extra)')
      leaves = jax.tree_util.tree_leaves(fd)
      ref_leaves = jax.tree_util.tree_leaves(want)
      if [plain(x) for x in leaves] != [plain(x) for x in ref_leaves]:
        raise Violation('pytree-leaves', f'op {oi}: leaves of FrozenDict(fd, **extra) differ from those of the equal plain dict')
      if self.hashable and (fd != FrozenDict(want) or hash(fd) != hash(FrozenDict(want))):
        raise Violation('equality-hash', f'op {oi}: FrozenDict(fd, **extra) does not equal / hash like a FrozenDict built from the merged dict')
      res.probe('ctor_extend')
      self.track(fd, k)
      self.api_ops += 1
      return
    if k in ('freeze', 'ctor', 'ctor_kwargs'):
      src = self.sources[op['src'] % len(self.sources)]
      if op['embed'] and self.fds:
        # a source that already contains a FrozenDict (sharing its internals is allowed: it is immutable)
        src = dict(src)
        src['emb'] = self.fds[op['fd'] % len(self.fds)][0]
        self.sources.append(src)
        self.mutables.append((src, 'source'))
        res.probe('nested_frozen_in_source')
      if k == 'freeze':
        fd = fd_mod.freeze(src)
      elif k == 'ctor':
        fd = FrozenDict(src)
      else:
        fd = FrozenDict(**src)
      if plain(fd) != plain(src):
        raise Violation('freeze-wrong-content', f'op {oi}: freeze result differs from its source')
      self.track(fd, k)
      self.api_ops += 1
    elif k == 'unfreeze':
      fd = self.pick_fd(op['fd'])
      u = fd.unfreeze() if op['how'] == 'method' else fd_mod.unfreeze(fd)
      if type(u) is not dict or plain(u) != plain(fd):
        raise Violation('unfreeze-wrong', f'op {oi}: unfreeze is not an equal plain dict')
      for d in nested_dicts(u, []):
        if any(isinstance(v, FrozenDict) for v in d.values()):
          raise Violation('unfreeze-wrong', f'op {oi}: unfreeze left a FrozenDict inside')
      self.handed_out(u, 'unfreeze')
      self.api_ops += 1
    elif k == 'copy':
      fd = self.pick_fd(op['fd'])
      addsrc = self.sources[op['add'] % len(self.sources)]
      if op['add_kind'] == 'fd':
        add = fd_mod.freeze(addsrc)
        self.track(add, 'freeze')
      elif op['add_kind'] == 'mutable':
        add = addsrc  # the very object the world may mutate later
      else:
        add = build(self.plan['knobs']['srcs'][op['add'] % len(self.plan['knobs']['srcs'])])
        for d in nested_dicts(add, []):
          self.mutables.append((d, 'copy-argument-wrapped' if op.get('wrap') else 'copy-argument'))
      inner = add
      wrap = op.get('wrap')
      if wrap:
        # a Mapping that is neither dict nor FrozenDict, over a dict the world holds: its nested dicts stay fair game
        import collections
        import types

        if wrap == 'proxy':
          add = types.MappingProxyType(inner)
        elif wrap == 'userdict':
          add = collections.UserDict(inner)
        elif wrap == 'chainmap':
          add = collections.ChainMap(inner)
        elif wrap == 'chainmap_child':
          add = collections.ChainMap(inner).new_child()
        else:
          raise kernel.HarnessError('unknown wrap ' + str(wrap))
        if plain(dict(add)) != plain(inner):
          raise kernel.HarnessError('mapping wrapper does not show the wrapped contents')
        res.probe('copy_arg_mapping_wrapper')
      c = fd.copy(add) if op['how'] == 'method' else fd_mod.copy(fd, add)
      want = dict(plain(fd))
      want.update(plain(inner))
      if not isinstance(c, FrozenDict) or plain(c) != want:
        raise Violation('copy-wrong', f'op {oi}: copy(add_or_replace) has wrong contents or type')
      self.track(c, 'copy')
      self.api_ops += 1
    elif k == 'pop':
      fd = self.pick_fd(op['fd'])
      keys = sorted(fd.keys())
      if not keys:
        return
      key = keys[op['key'] % len(keys)]
      new, val = fd.pop(key) if op['how'] == 'method' else fd_mod.pop(fd, key)
      want = dict(plain(fd))
      wv = want.pop(key)
      if not isinstance(new, FrozenDict) or plain(new) != want or plain(val) != wv:
        raise Violation('pop-wrong', f'op {oi}: pop({key}) returned wrong rest or value')
      self.track(new, 'pop')
      self.handed_out(val, 'pop-value')
      self.api_ops += 1
    elif k == 'index':
      fd = self.pick_fd(op['fd'])
      cur = fd
      for p in op['path']:
        if not is_map(cur) or not len(cur):
          break
        keys = sorted(cur.keys())
        cur = cur[keys[p % len(keys)]]
        if isinstance(cur, dict):
          res.probe('mutation_target_from_index')
        self.handed_out(cur, 'index')
      self.api_ops += 1
    elif k == 'iterate':
      fd = self.pick_fd(op['fd'])
      how = op['how']
      if how == 'items':
        got = list(fd.items())
        if [kk for kk, _ in got] != list(fd.keys()) or any(plain(v) != plain(fd[kk]) for kk, v in got):
          raise Violation('iteration-wrong', f'op {oi}: items() disagrees with indexing')
        vals = [v for _, v in got]
      elif how == 'values':
        vals = list(fd.values())
        if [plain(v) for v in vals] != [plain(fd[kk]) for kk in fd]:
          raise Violation('iteration-wrong', f'op {oi}: values() disagrees with indexing')
      else:
        ks = list(fd.keys()) if how == 'keys' else list(iter(fd))
        if sorted(ks) != sorted(plain(fd)) or len(ks) != len(fd):
          raise Violation('iteration-wrong', f'op {oi}: keys disagree')
        vals = []
      for v in vals:
        self.handed_out(v, 'iteration')
      self.api_ops += 1
    elif k == 'pickle':
      fd = self.pick_fd(op['fd'])
      r = pickle.loads(pickle.dumps(fd))
      if not isinstance(r, FrozenDict) or plain(r) != plain(fd) or (self.hashable and r != fd):
        raise Violation('pickle-roundtrip', f'op {oi}: pickle round trip is not an equal FrozenDict')
      res.probe('pickle_roundtrip')
      self.track(r, 'pickle')
      self.api_ops += 1
      if op.get('peer'):
        if self.hashable and op.get('warm'):
          hash(fd)
        ans = peer_roundtrip(fd, _plain_tree(fd), self.hashable)
        if 'error' in ans:
          raise Violation('pickle-roundtrip', f'op {oi}: unpickling in another interpreter failed: {ans["error"]}')
        if ans['type'] != 'FrozenDict' or not ans['plain_eq']:
          raise Violation('pickle-roundtrip', f'op {oi}: unpickled in another interpreter the value is a {ans["type"]}, equal to the original contents: {ans["plain_eq"]}')
        if self.hashable and not (ans['eq'] and ans['hash_eq'] and ans['lookup']):
          raise Violation('pickle-roundtrip', f'op {oi}: unpickled in another interpreter (other hash salt) the FrozenDict vs a freshly built equal one: == {ans["eq"]}, same hash {ans["hash_eq"]}, found in a dict keyed by the other {ans["lookup"]}')
        back = pickle.loads(ans['back'])
        if not isinstance(back, FrozenDict) or plain(back) != plain(fd):
          raise Violation('pickle-roundtrip', f'op {oi}: the FrozenDict that came back from the other interpreter is not equal to the original')
        if self.hashable and not (back == fd and hash(back) == hash(fd) and back in {fd: 1}):
          raise Violation('pickle-roundtrip', f'op {oi}: the FrozenDict that came back from the other interpreter compares {back == fd}, same hash {hash(back) == hash(fd)}')
        res.probe('pickle_to_peer_interpreter')
        self.track(back, 'pickle-peer')
    elif k == 'pytree':
      fd = self.pick_fd(op['fd'])
      how = op['how']
      if how in ('flatten', 'leaves_order', 'with_path'):
        leaves, tdef = jax.tree_util.tree_flatten(fd)
        ref_leaves, _ = jax.tree_util.tree_flatten(_plain_tree(fd))
        if [plain(x) for x in leaves] != [plain(x) for x in ref_leaves]:
          raise Violation('pytree-leaves', f'op {oi}: flatten(FrozenDict) leaves differ from those of the equal plain dict (sorted-key order)')
        if how == 'with_path':
          pl, _ = jax.tree_util.tree_flatten_with_path(fd)
          rl, _ = jax.tree_util.tree_flatten_with_path(_plain_tree(fd))
          if [jax.tree_util.keystr(p) for p, _ in pl] != [jax.tree_util.keystr(p) for p, _ in rl]:
            raise Violation('pytree-leaves', f'op {oi}: key paths differ from those of the equal plain dict')
        r = jax.tree_util.tree_unflatten(tdef, leaves)
        if not isinstance(r, FrozenDict) or plain(r) != plain(fd):
          raise Violation('pytree-roundtrip', f'op {oi}: unflatten(flatten(fd)) is not an equal FrozenDict')
        self.track(r, 'unflatten')
      else:
        r = jax.tree_util.tree_map(lambda x: x, fd)
        if not isinstance(r, FrozenDict) or plain(r) != plain(fd):
          raise Violation('pytree-roundtrip', f'op {oi}: tree_map identity is not an equal FrozenDict')
        self.track(r, 'tree_map')
      self.api_ops += 1
    elif k == 'order':
      fd = self.pick_fd(op['fd'])
      g = stream(op['seed'], 'order')
      alt = FrozenDict(_shuffled(_plain_tree(fd), g))
      res.probe('order_variant')
      if plain(alt) != plain(fd):
        raise kernel.HarnessError('order variant differs')
      if self.hashable:
        if not (alt == fd) or hash(alt) != hash(fd):
          raise Violation('order-dependent-equality', f'op {oi}: equal contents in another insertion order compare or hash differently')
      self.track(alt, 'order-variant')
      self.api_ops += 1
    elif k == 'hash_attempt':
      # hashing is all-or-nothing and repeatable: with an unhashable leaf EVERY attempt raises TypeError,
      # otherwise every attempt returns the same number (a failed attempt must leave nothing behind)
      fd = self.pick_fd(op['fd'])
      outcomes = []
      for _ in range(op['times']):
        try:
          outcomes.append(('ok', hash(fd)))
        except TypeError:
          outcomes.append(('TypeError',))
      if len(set(outcomes)) != 1:
        raise Violation('hash-changed', f'op {oi}: repeated hash() of one FrozenDict gave {outcomes}')
      twin = FrozenDict(_plain_tree(fd))
      try:
        ht = ('ok', hash(twin))
      except TypeError:
        ht = ('TypeError',)
      if ht != outcomes[0]:
        raise Violation('order-dependent-equality', f'op {oi}: an equal FrozenDict hashes differently ({ht} vs {outcomes[0]})')
      if outcomes[0][0] == 'TypeError':
        res.probe('hash_unhashable_raises')
      self.api_ops += 1
    elif k == 'api_mutate':
      fd = self.pick_fd(op['fd'])
      how = op['how']
      raised = False
      try:
        if how == 'setitem':
          fd['zz'] = 1
        elif how == 'delitem':
          ks = list(fd.keys())
          del fd[ks[0] if ks else 'a']
        elif how == 'setattr':
          fd.extra = 1
        elif how == 'update':
          fd.update({'zz': 1})
        elif how == 'clear':
          fd.clear()
        else:
          ks = [kk for kk in fd.keys() if is_map(fd[kk])]
          if not ks:
            return
          inner = fd[ks[0]]
          self.handed_out(inner, 'index')
          inner['zz'] = 1
          if isinstance(inner, dict):
            raised = True  # a plain dict was handed out: the write itself is a foreign mutation; the invariant decides
      except Exception:  # noqa: BLE001
        raised = True
      if not raised:
        raise Violation('mutation-accepted', f'op {oi}: {how} on a FrozenDict did not raise')
      self.api_ops += 1
    elif k == 'mutate':
      if not self.mutables:
        return
      d, origin = self.mutables[op['target'] % len(self.mutables)]
      how = op['how']
      keys = sorted(d.keys())
      if how == 'set':
        d['injected_%d' % oi] = oi
      elif how == 'del' and keys:
        del d[keys[op['where'][0] % len(keys)]]
      elif how == 'clear':
        d.clear()
      elif how == 'nest':
        d['nested_%d' % oi] = {'deep': {'x': oi}}
      elif keys:
        d[keys[op['where'][1] % len(keys)]] = -oi - 1
      else:
        d['only'] = oi
      res.fault('foreign_mutation:' + origin)
      res.probe({'source': 'mutation_of_source_after_freeze', 'unfreeze': 'mutation_of_unfreeze_result', 'copy-argument': 'mutation_of_copy_argument', 'copy-argument-wrapped': 'mutation_behind_mapping_wrapper'}.get(origin, 'mutation_of_handed_out_dict'))
    else:
      raise kernel.HarnessError('unknown op ' + k)
    self.log.add(oi, k, op.get('how'), *([op['wrap']] if op.get('wrap') else []))


def _plain_tree(fd):
  if is_map(fd):
    return {k: _plain_tree(fd[k]) for k in fd}
  return fd


def _shuffled(d, g):
  if isinstance(d, dict):
    ks = list(d.keys())
    g.shuffle(ks)
    return {k: _shuffled(d[k], g) for k in ks}
  return d


def _short(x):
  s = repr(x)
  return s if len(s) < 300 else s[:300] + '...'


# --------------------------------------------------------------------------
# struct dataclasses


class SWorld:
  def __init__(self, plan, res, log):
    self.plan, self.res, self.log = plan, res, log
    k = plan['knobs']
    parent = k.get('parent')
    # dataclass field order: inherited fields first, then the class's own, each in declaration order
    self.fields = (parent['fields'] if parent else []) + k['fields']
    self.refused = False
    # user metadata passed to struct.field: a fresh dict per field, or ONE dict object reused for every field
    mode = k.get('meta')
    shared = {'units': 'm'}
    self.meta_objs = []

    def namespace(fields):
      ann = {}
      ns = {}
      for f in fields:
        ann[f['name']] = object
        kw = {}
        if mode == 'fresh':
          kw['metadata'] = {'units': 'm', 'doc': f['name']}
        elif mode == 'shared':
          kw['metadata'] = shared
          res.probe('struct_shared_metadata')
        if 'metadata' in kw:
          self.meta_objs.append((kw['metadata'], dict(kw['metadata'])))
        if f['static']:
          ns[f['name']] = struct.field(pytree_node=False, default=0, **kw)
        else:
          ns[f['name']] = struct.field(default=None, **kw)
      ns['__annotations__'] = ann
      return ns

    # the base class of the generated class (if any).  'plain' / 'plain_frozen': an ordinary @dataclasses.dataclass record;
    # 'struct' / 'struct_unfrozen': a struct class of the same form as the child, the latter opting out with frozen=False
    bases = ()
    if parent:
      pk = parent['kind']
      pns = namespace(parent['fields'])
      if pk == 'plain':
        pcls = dataclasses.dataclass(type('GenBase', (), pns))
      elif pk == 'plain_frozen':
        pcls = dataclasses.dataclass(frozen=True)(type('GenBase', (), pns))
      elif pk in ('struct', 'struct_unfrozen'):
        pkw = {'frozen': False} if pk == 'struct_unfrozen' else {}
        if k['base'] == 'PyTreeNode':
          pcls = type('GenParentNode', (struct.PyTreeNode,), pns, **pkw)
        elif k['base'] == 'dataclass_slots':
          pcls = struct.dataclass(type('GenParentSlots', (), pns), slots=True, **pkw)
        else:
          pcls = struct.dataclass(type('GenParent', (), pns), **pkw)
      else:
        raise kernel.HarnessError('unknown parent kind ' + str(pk))
      if dataclasses.is_dataclass(pcls) and pcls.__dataclass_params__.frozen != (pk not in UNFROZEN_PARENTS):
        raise kernel.HarnessError(f'generated base class {pk} has frozen={pcls.__dataclass_params__.frozen}')
      bases = (pcls,)
    ns = namespace(k['fields'])
    try:
      if k['base'] == 'dataclass_slots':
        # dataclasses' own slots=True option: the decorator hands back a NEW class
        self.cls = struct.dataclass(type('GenSlots', bases, ns), slots=True)
        res.probe('struct_slots')
      elif k['base'] == 'dataclass':
        self.cls = struct.dataclass(type('Gen', bases, ns))
      elif bases and not issubclass(bases[0], struct.PyTreeNode):
        self.cls = type('GenNode', bases + (struct.PyTreeNode,), ns)  # class S(Base, struct.PyTreeNode)
      else:
        self.cls = type('GenNode', bases or (struct.PyTreeNode,), ns)
    except TypeError as e:
      # a struct class that does not say frozen=False cannot sit below a non-frozen dataclass: Python refuses the definition
      if not (parent and parent['kind'] in UNFROZEN_PARENTS and 'frozen' in str(e)):
        raise
      res.probe('struct_unfrozen_base_refused')
      self.refused = True
      return
    if parent:
      res.probe('struct_inherited_layout')
    self.traces = 0
    self.seen = set()

    def f(inst):
      self.traces += 1
      tot = jnp.zeros(())
      for fl in self.fields:
        if not fl['static']:
          tot = tot + jnp.sum(getattr(inst, fl['name']))
        else:
          tot = tot + getattr(inst, fl['name'])  # static fields are Python values at trace time
      return tot

    self.jf = jax.jit(f)
    self.insts = [self.make(1)]
    for obj, before in self.meta_objs:
      if obj != before:
        raise Violation('field-metadata-mutated', f'struct.field changed the metadata dict passed in: {before} -> {obj}')
    # the declared layout decides the pytree leaves, whatever metadata objects were passed
    leaves = jax.tree_util.tree_leaves(self.insts[0])
    want = [getattr(self.insts[0], fl['name']) for fl in self.fields if not fl['static']]
    if len(leaves) != len(want) or any(a is not b for a, b in zip(leaves, want)):
      raise Violation('pytree-leaves', 'pytree leaves are not exactly the fields declared without pytree_node=False')
    if parent:
      # whatever the base class is, the class did not ask for frozen=False: no field of an instance, data or static,
      # inherited or own, accepts assignment
      scratch = self.make(1)
      for fl in self.fields:
        old = getattr(scratch, fl['name'])
        try:
          setattr(scratch, fl['name'], 123)
          raised = False
        except Exception:  # noqa: BLE001
          raised = True
        if not raised or getattr(scratch, fl['name']) is not old:
          what = 'pytree_node=False' if fl['static'] else 'data'
          raise Violation('mutation-accepted', f'struct class declared without frozen=False below a {parent["kind"]} base ({k["base"]} form): assignment to {what} field {fl["name"]} of an instance did not raise')
      res.probe('struct_frozen_checked')

  def make(self, val):
    kw = {}
    for i, f in enumerate(self.fields):
      kw[f['name']] = (val + i) if f['static'] else (np.ones(f['shape'], np.float32) * (val + i))
    return self.cls(**kw)

  def statics(self, inst):
    return tuple(getattr(inst, f['name']) for f in self.fields if f['static'])

  def expect_value(self, inst):
    tot = 0.0
    for f in self.fields:
      v = getattr(inst, f['name'])
      tot += float(np.sum(np.asarray(v)))
    return tot

  def same(self, a, b):
    if type(a) is not type(b):
      return False
    for f in self.fields:
      x, y = getattr(a, f['name']), getattr(b, f['name'])
      if f['static']:
        if x != y:
          return False
      else:
        x, y = np.asarray(x), np.asarray(y)
        if x.shape != y.shape or x.dtype != y.dtype or x.tobytes() != y.tobytes():
          return False
    return True

  def step(self, oi, op):
    k = op['op']
    res = self.res
    inst = self.insts[op.get('inst', 0) % len(self.insts)]
    if k == 'new':
      self.insts.append(self.make(op['val']))
    elif k == 'replace':
      f = self.fields[op['field'] % len(self.fields)]
      newv = op['val'] + 10 if f['static'] else np.ones(f['shape'], np.float32) * op['val']
      before = {fl['name']: getattr(inst, fl['name']) for fl in self.fields}
      r = inst.replace(**{f['name']: newv})
      if r is inst or type(r) is not self.cls:
        raise Violation('replace-wrong', f'op {oi}: replace did not return a new instance of the class')
      for fl in self.fields:
        if getattr(inst, fl['name']) is not before[fl['name']]:
          raise Violation('instance-changed', f'op {oi}: replace changed the original instance')
        if fl['name'] != f['name'] and getattr(r, fl['name']) is not before[fl['name']]:
          raise Violation('replace-wrong', f'op {oi}: replace changed field {fl["name"]} that was not named')
      got = getattr(r, f['name'])
      if (got != newv) if f['static'] else (np.asarray(got).tobytes() != newv.tobytes()):
        raise Violation('replace-wrong', f'op {oi}: replaced field has wrong value')
      self.insts.append(r)
    elif k == 'assign':
      f = self.fields[op['field'] % len(self.fields)]
      old = getattr(inst, f['name'])
      try:
        setattr(inst, f['name'], 123)
        raised = False
      except dataclasses.FrozenInstanceError:
        raised = True
      except Exception:  # noqa: BLE001
        raised = True
      if not raised or getattr(inst, f['name']) is not old:
        raise Violation('mutation-accepted', f'op {oi}: attribute assignment on a struct instance did not raise')
    elif k == 'leaves':
      leaves, tdef = jax.tree_util.tree_flatten(inst)
      want = [getattr(inst, f['name']) for f in self.fields if not f['static']]
      if len(leaves) != len(want) or any(a is not b for a, b in zip(leaves, want)):
        raise Violation('pytree-leaves', f'op {oi}: pytree leaves are not exactly the fields without pytree_node=False, in declaration order')
      r = jax.tree_util.tree_unflatten(tdef, leaves)
      if not self.same(r, inst):
        raise Violation('pytree-roundtrip', f'op {oi}: unflatten(flatten(x)) differs from x')
      other = inst.replace(**{f['name']: getattr(inst, f['name']) + 1 for f in self.fields if f['static']})
      if any(f['static'] for f in self.fields) and jax.tree_util.tree_structure(other) == tdef:
        raise Violation('static-not-in-treedef', f'op {oi}: changing a pytree_node=False field did not change the treedef')
    elif k == 'tree_map':
      r = jax.tree_util.tree_map(lambda x: x * 2, inst)
      want = inst.replace(**{f['name']: getattr(inst, f['name']) * 2 for f in self.fields if not f['static']})
      if not self.same(r, want):
        raise Violation('reconstruction-wrong', f'op {oi}: tree_map did not rebuild the class with the same static fields and mapped leaves')
    elif k == 'vmap':
      batched = inst.replace(**{f['name']: np.stack([getattr(inst, f['name'])] * 3) for f in self.fields if not f['static']})
      r = jax.vmap(lambda t: jax.tree_util.tree_map(lambda x: x + 1, t))(batched)
      want = batched.replace(**{f['name']: getattr(batched, f['name']) + 1 for f in self.fields if not f['static']})
      r = jax.tree_util.tree_map(np.asarray, r)
      if not self.same(r, want):
        raise Violation('reconstruction-wrong', f'op {oi}: vmap did not rebuild the class with the same static fields')
    elif k == 'grad':
      def loss(t):
        return sum(jnp.sum(getattr(t, f['name']) ** 2) for f in self.fields if not f['static'])

      r = jax.grad(loss)(inst)
      want = inst.replace(**{f['name']: getattr(inst, f['name']) * 2 for f in self.fields if not f['static']})
      r = jax.tree_util.tree_map(np.asarray, r)
      if not self.same(r, want):
        raise Violation('reconstruction-wrong', f'op {oi}: grad did not return the class with the same static fields and 2x leaves')
    elif k == 'call_jit':
      key = (self.statics(inst), tuple(np.asarray(getattr(inst, f['name'])).shape for f in self.fields if not f['static']))
      t0 = self.traces
      out = float(self.jf(inst))
      traced = self.traces - t0
      if abs(out - self.expect_value(inst)) > 1e-3:
        raise Violation('jit-wrong-value', f'op {oi}: jitted function returned {out}, expected {self.expect_value(inst)} (stale static field?)')
      if key in self.seen:
        if traced:
          raise Violation('spurious-retrace', f'op {oi}: retraced although only dynamic fields changed')
        res.probe('cache_hit_on_dynamic_change')
      else:
        if traced != 1:
          raise Violation('missing-retrace', f'op {oi}: static field changed but the function was not retraced')
        if len(self.seen):
          res.probe('retrace_on_static_change')
        self.seen.add(key)
    else:
      raise kernel.HarnessError('unknown op ' + k)
    self.log.add(oi, k)


def execute(plan):
  res = Result()
  log = kernel.Log()
  k = plan['knobs']
  viol = None
  nops = len(plan['ops'])
  try:
    if k['kind'] == 'frozen':
      w = FWorld(plan, res, log)
      for oi, op in enumerate(plan['ops']):
        w.step(oi, op)
        w.invariant(oi, op['op'])
      res.nontrivial = bool(res.faults) or w.api_ops >= 3
      log.add('fds', len(w.fds), [o for _, _, _, o in w.fds])
    else:
      res.probe('struct_runs')
      w = SWorld(plan, res, log)
      if w.refused:
        # the class could not be defined: there is no instance to run the history on
        log.add('refused', k['parent']['kind'], k['base'])
        nops = 0
      else:
        for oi, op in enumerate(plan['ops']):
          w.step(oi, op)
        res.nontrivial = len(plan['ops']) >= 3
        log.add('traces', w.traces)
  except Violation as v:
    viol = dict(kind=v.kind, detail=v.detail)
  except kernel.HarnessError:
    raise
  except Exception as e:  # noqa: BLE001
    if not kernel.through_sut(e, markers=('/flax/', '/jax/')):
      raise
    viol = dict(kind='unexpected-exception', detail=f'{type(e).__name__}: {e}')
  res.steps = nops
  res.ops = nops
  res.digest = log.digest()
  res.violation = viol
  return res
