"""C09 - random keys are deterministic, position-addressed and never reused.

NNX half: histories of draws / split_rngs (call and context manager, body may raise) / restore /
reseed / jit and vmap draws / clone on Rngs objects, against a counter model of streams.
Linen half: every key handed to user code (make_rng and parameter initialisers) by generated programs is
compared with an independent model of the derivation fold_in(seed, uint32(sha1(parts)[:4])), for both
settings of flax_fix_rng_separator, plus edit-invariance over program edits.
"""
from __future__ import annotations

import hashlib

from sim import kernel, programs as P
from sim.kernel import Result, Violation, stream

PROP = 'C09'
TIERS = {
  'quick': dict(runs=10000, deadline=50, workers=16),
  'thorough': dict(runs=400000, deadline=800, workers=16),
}
SELFTEST_RUNS = 240
GC_EVERY = 40  # the method runs build module classes (cyclic garbage holding jitted functions); jaxlib crashes once its jit cache fills with them
CLEAR_JAX_CACHES_EVERY = 150
RULE = (
  'NNX runs: one history (<= 16 ops) on 1-2 Rngs objects with per-stream seeds: draw from a named or missing stream, '
  'split_rngs(splits, only) as call+restore_rngs or as context manager whose body draws and may raise, reseed, draws inside '
  'nnx.jit and inside nnx.vmap under split_rngs, clone; every key is compared (key data) with a counter model '
  '(draw = fold_in(key, count); split consumes one draw; restore resumes after it; reseed restarts) and a run-global set '
  'forbids a repeated key unless the model predicts the repetition. Linen runs: a generated program is initialised and '
  'applied with recording of every key handed to make_rng / initialisers; each key must equal the independent derivation model '
  'from (seed, stream or params fallback, module path, per-scope count), keys of one call are pairwise distinct, and after each '
  'program edit (unrelated named sibling, stream, variable, draw on another stream added/removed) keys at surviving positions are '
  'unchanged; both values of flax_fix_rng_separator. Non-trivial = >= 3 keys compared; distinct = distinct event-log digest.'
)
STEP_UNIT = 'keys handed out and compared'
COMPONENTS = {'real': ['flax/nnx/rnglib.py (Rngs, RngStream, split_rngs, restore_rngs, reseed)', 'flax/core/scope.py (LazyRng, _fold_in_static, make_rng, rng_counters, push)', 'flax/linen/module.py make_rng / param', 'nnx.jit / nnx.vmap for in-transform draws'], 'stub': ['module bodies are interpreters over generated program specs']}
ASSUMPTIONS = [
  'jax.random.key / fold_in / split / key_data are the trusted base of both models',
  'module paths are taken from Module.path (naming is C02 territory); the check is that the key is the stated function of (seed, stream, path, count)',
  'distinctness is demanded modulo the derivation\'s own 32-bit hash truncation: positions whose model hashes coincide are counted in a probe and skipped',
]
PROBES = ['linen_mapv_runs', 'attr_cold_class_compared', 'nnx_runs', 'linen_runs', 'missing_stream_default', 'split_ctx_raises', 'restore_resumes', 'reseed', 'jit_draw', 'vmap_draw', 'clone_predicted_duplicate', 'linen_fallback_params', 'separator_on', 'separator_off', 'edit_invariance_checked', 'hash_collision_skipped', 'init_keys_checked', 'linen_jit_child', 'linen_method_runs', 'plain_and_jitted_method_share_child', 'reseed_several_same_name', 'linen_loop_runs', 'linen_attr_runs', 'draws_in_loop_predicate_and_body']


def setup_worker(w, tier):
  global np, jax, jnp, nn, nnx, flax
  P.setup()
  np, jax, jnp, nn, flax = P.np, P.jax, P.jnp, P.nn, P.flax
  from flax import nnx


class BodyError(Exception):
  pass


def generate(rs, tier):
  g = stream(rs, 'gen')
  r = g.random()
  if r < 0.5:
    return gen_nnx(g)
  if r < 0.62:
    return gen_methods(g)
  if r < 0.72 and r >= 0.67:
    # sub-modules created by the caller and handed to a (jitted) module as dataclass attributes
    n = g.choice([2, 2, 3])
    return dict(engine='linenworld', knobs=dict(kind='linen_attr', separator=g.random() < 0.6, n=n, lift=g.choice(['jit', 'jit', 'fold', 'plain']), calls=[g.randrange(n) for _ in range(g.randrange(2, 6))], calls2=[g.randrange(n) for _ in range(g.randrange(1, 6))], seed=g.randrange(4)), ops=[])
  if r < 0.645 and r >= 0.62:
    # parameters and draws inside an identity nn.map_variables(..., init=True) (its body is run more than once at init)
    return dict(engine='linenworld', knobs=dict(kind='linen_mapv', separator=g.random() < 0.6, draw_stream=g.choice(['params', 'noise', 'missing']), col=g.choice(['params', 'stats']), mutable=g.random() < 0.7, n_params=g.choice([1, 2]), seed=g.randrange(4)), ops=[])
  if r < 0.67:
    return dict(engine='linenworld', knobs=dict(kind='linen_loop', separator=g.random() < 0.6, trips=g.randrange(0, 4), split=g.random() < 0.7, n_cond=g.choice([1, 1, 2]), n_body=g.choice([0, 1, 1, 2]), pre=g.random() < 0.6, post=g.random() < 0.7, seed=g.randrange(4)), ops=[])
  return gen_linen(g)


def gen_methods(g):
  """A setup-style module whose children draw keys; plain methods and nn.jit-ted methods use the same children.  One run =
  several applies (call scripts) of ONE module class that lives for the whole process, so lifted-transform caches are warm
  in every state the earlier scripts (of this and of earlier runs) left them."""
  n = g.choice([1, 2, 2, 3])
  streams = [g.choice(['noise', 'dropout']) for _ in range(n)]
  provided = {'params': g.randrange(4)}
  for s_ in ['dropout', 'noise']:
    if g.random() < 0.7:
      provided[s_] = g.randrange(4)
  ops = []
  for _ in range(g.randrange(2, 6)):
    ops.append(dict(op='script', calls=[[g.choice(['plain', 'fast', 'fast']), g.randrange(n)] for _ in range(g.randrange(1, 6))]))
  return dict(engine='linenworld', knobs=dict(kind='linen_methods', separator=g.random() < 0.6, streams=streams, provided=provided), ops=ops)


def gen_nnx(g):
  names = ['params', 'dropout', 'noise']
  objs = []
  for _ in range(g.choice([1, 1, 2])):
    st = {n: g.randrange(4) for n in g.sample(names, g.randrange(0, 3))}
    objs.append(dict(default=g.choice([None, 0, 1, 7]) if st else g.choice([0, 1, 7]), streams=st))
  ops = []
  for _ in range(g.randrange(3, 17)):
    r = g.random()
    o = g.randrange(len(objs))
    s = g.choice(names + ['default', 'other'])
    if r < 0.45:
      ops.append(dict(op='draw', obj=o, stream=s))
    elif r < 0.6:
      body = [dict(stream=g.choice(names + ['default'])) for _ in range(g.randrange(0, 3))]
      ops.append(dict(op='split_ctx', obj=o, splits=g.choice([1, 2, 3]), only=g.choice([None, None, 'params', 'dropout']), body=body, raises=g.random() < 0.35))
    elif r < 0.68:
      ops.append(dict(op='split_call', obj=o, splits=g.choice([2, 3]), only=g.choice([None, 'params']), restore_after=g.randrange(0, 3)))
    elif r < 0.76:
      ops.append(dict(op='reseed', obj=o, stream=g.choice(names + ['default']), seed=g.randrange(10, 14)))
      if g.random() < 0.4:
        # reseed called on a parent object that reaches every Rngs of the run (several streams carry the same name)
        ops[-1]['op'] = 'reseed_all'
    elif r < 0.84:
      ops.append(dict(op='jit_draw', obj=o, stream=s, n=g.choice([1, 2])))
    elif r < 0.92:
      ops.append(dict(op='vmap_draw', obj=o, stream=g.choice(names + ['default']), splits=g.choice([2, 3])))
    else:
      ops.append(dict(op='clone', obj=o))
  return dict(engine='nnxworld', knobs=dict(kind='nnx', objs=objs), ops=ops)


def gen_linen(g):
  sp = P.gen_module(g, allow=('param', 'rng', 'rng', 'child', 'var'))
  # make sure there is something to observe
  if not P.streams_used(sp):
    sp['body'].append(dict(i='rng', stream=g.choice(P.STREAMS)))
  provided = {'params': g.randrange(4)}
  for s in ['dropout', 'noise']:
    if g.random() < 0.6:
      provided[s] = g.randrange(4)
  jit_child = False
  if g.random() < 0.3:
    # one child is lifted with nn.jit (one lifted class for the whole run): keys inside cannot be recorded, so the
    # values they produce are the proxy - the same program with the same seeds must give the same values every time
    kids = [ins for ins in sp['body'] if ins['i'] == 'child']
    if kids:
      kid = g.choice(kids)
      kid['lift'] = 'jit'
      kid['times'] = 2
      kid['mod'] = dict(style='compact', name=None, body=[dict(i='child', times=1, mod=dict(style='compact', name=None, body=[dict(i='rng', stream=g.choice(['dropout', 'noise'])), dict(i='param', name='w0', kind='bias')]))])
      jit_child = True
  edits = []
  for _ in range(g.randrange(1, 4)):
    edits.append(dict(kind=g.choice(['add_named_sibling', 'add_var', 'add_sow', 'add_other_stream_draw', 'add_stream', 'remove_stream', 'append_sibling']), at=g.randrange(8), stream=g.choice(P.STREAMS)))
  return dict(engine='linenworld', knobs=dict(kind='linen', separator=g.random() < 0.6, spec=sp, provided=provided, batch=g.choice([1, 2]), jit_child=jit_child), ops=edits)


SHRINK_LISTS = ['ops']


def signature(plan, v):
  return dict(kind=plan['knobs']['kind'])


# --------------------------------------------------------------------------
# NNX half


def kd(key):
  return bytes(np.asarray(jax.random.key_data(key)))


class MStream:
  def __init__(self, key):
    self.key = key  # typed key, scalar or (n,) after a split
    self.count = np.zeros((), np.uint32)  # scalar or (n,)

  def draw(self):
    if np.ndim(self.count) == 0:
      k = jax.random.fold_in(self.key, np.uint32(self.count))
      pos = [(kd(self.key), int(self.count))]
    else:
      k = jax.vmap(jax.random.fold_in)(self.key, jnp.asarray(self.count))
      kdata = np.asarray(jax.random.key_data(self.key))
      pos = [(bytes(kdata[i]), int(self.count[i])) for i in range(self.count.shape[0])]
    self.count = self.count + np.uint32(1)
    return k, pos


class NnxWorld:
  def __init__(self, plan, res, log):
    self.res, self.log = res, log
    self.real = []
    self.model = []
    self.positions = set()
    self.handed = {}
    self.compared = 0
    for o in plan['knobs']['objs']:
      self.add(o['default'], o['streams'])

  def add(self, default, streams):
    if default is None:
      r = nnx.Rngs(**streams)
    else:
      r = nnx.Rngs(default, **streams)
    m = {n: MStream(jax.random.key(s)) for n, s in streams.items()}
    if default is not None:
      m['default'] = MStream(jax.random.key(default))
    self.real.append(r)
    self.model.append(m)

  def mstream(self, mi, name):
    m = self.model[mi]
    if name in m:
      return m[name]
    if 'default' in m:
      self.res.probe('missing_stream_default')
      return m['default']
    return None

  def compare(self, oi, what, got, want, pos):
    g = np.asarray(jax.random.key_data(got))
    w = np.asarray(jax.random.key_data(want))
    if g.shape != w.shape or g.tobytes() != w.tobytes():
      raise Violation('key-differs-from-model', f'op {oi} {what}: key {g.reshape(-1).tolist()} but the counter model gives {w.reshape(-1).tolist()}')
    flat = g.reshape(-1, g.shape[-1])
    for i, p in enumerate(pos):
      b = bytes(flat[i])
      predicted_dup = p in self.positions
      if b in self.handed and not predicted_dup and self.handed[b] != p:
        raise Violation('key-reused', f'op {oi} {what}: a key that was already handed out was returned again')
      if predicted_dup:
        self.res.probe('clone_predicted_duplicate')
      self.positions.add(p)
      self.handed[b] = p
      self.compared += 1

  def real_draw(self, r, name):
    return r[name]() if name != 'default' else r()

  def draw(self, oi, mi, name, what='draw'):
    ms = self.mstream(mi, name)
    r = self.real[mi]
    if ms is None:
      try:
        r[name]()
      except (KeyError, AttributeError):
        return
      raise Violation('missing-stream-accepted', f'op {oi}: stream {name!r} does not exist and there is no default, but a key was returned')
    got = self.real_draw(r, name) if name in self.model[mi] else r[name]()
    want, pos = ms.draw()
    self.compare(oi, f'{what}({name})', got, want, pos)

  def model_split(self, mi, splits, only):
    """split consumes one draw; returns backups [(stream, key, count)]."""
    backups = []
    for name in sorted(self.model[mi]):
      if only is not None and name != only:
        continue
      ms = self.model[mi][name]
      k, pos = ms.draw()
      backups.append((ms, ms.key, ms.count))
      ms.key = jax.random.split(k, splits)
      ms.count = np.zeros((splits,) + np.shape(ms.count), np.uint32)
    return backups

  def step(self, oi, op):
    k = op['op']
    mi = op['obj'] % len(self.real)
    r = self.real[mi]
    res = self.res
    if k == 'draw':
      self.draw(oi, mi, op['stream'])
    elif k == 'split_ctx':
      only = ... if op['only'] is None else nnx.All(nnx.RngState, op['only'])
      if any(np.ndim(ms.count) for ms in self.model[mi].values()):
        return  # already split (an outstanding split_call): nested splits are not generated
      backups = None
      try:
        with nnx.split_rngs(r, splits=op['splits'], only=only):
          backups = self.model_split(mi, op['splits'], op['only'])
          # (a split stream holds a key array: it can only be drawn from inside vmap, see vmap_draw)
          if op['raises']:
            raise BodyError()
      except BodyError:
        res.fault('raise_in_split_context')
        res.probe('split_ctx_raises')
      for ms, key, count in backups or []:
        ms.key, ms.count = key, count
      res.probe('restore_resumes')
      # the very next draw of every stream must be the model's next: not a replayed key
      for name in sorted(self.model[mi]):
        self.draw(oi, mi, name, 'draw-after-restore')
    elif k == 'split_call':
      if any(np.ndim(ms.count) for ms in self.model[mi].values()):
        return
      only = ... if op['only'] is None else nnx.All(nnx.RngState, op['only'])
      real_b = nnx.split_rngs(r, splits=op['splits'], only=only)
      backups = self.model_split(mi, op['splits'], op['only'])
      nnx.restore_rngs(real_b)
      for ms, key, count in backups:
        ms.key, ms.count = key, count
      res.probe('restore_resumes')
      for name in sorted(self.model[mi]):
        self.draw(oi, mi, name, 'draw-after-restore')
    elif k == 'reseed':
      name = op['stream']
      if name not in self.model[mi]:
        return
      nnx.reseed(r, **{name: op['seed']})
      ms = self.model[mi][name]
      ms.key = jax.random.key(op['seed'])
      ms.count = np.zeros((), np.uint32)
      res.probe('reseed')
      self.draw(oi, mi, name, 'draw-after-reseed')
    elif k == 'reseed_all':
      name = op['stream']

      class Holder(nnx.Module):
        def __init__(self, items):
          for i, it in enumerate(items):
            setattr(self, f'r{i}', it)

      nnx.reseed(Holder(self.real), **{name: op['seed']})
      hit = [i for i, m in enumerate(self.model) if name in m]
      for i in hit:
        ms = self.model[i][name]
        ms.key = jax.random.key(op['seed'])
        ms.count = np.zeros((), np.uint32)
      if len(hit) > 1:
        res.probe('reseed_several_same_name')
      for i in hit:
        self.draw(oi, i, name, f'draw-after-reseed-of-parent[obj {i}]')
    elif k == 'jit_draw':
      name = op['stream']
      ms = self.mstream(mi, name)
      if ms is None:
        return
      n = op['n']

      @nnx.jit
      def f(rr):
        return [rr[name]() for _ in range(n)]

      keys = f(r)
      for kk in keys:
        want, pos = ms.draw()
        self.compare(oi, f'jit-draw({name})', kk, want, pos)
      res.probe('jit_draw')
    elif k == 'vmap_draw':
      name = op['stream']
      if name not in self.model[mi]:
        return
      n = op['splits']

      @nnx.split_rngs(splits=n)
      @nnx.vmap(in_axes=(nnx.StateAxes({nnx.RngState: 0}),), out_axes=0)
      def f(rr):
        return rr[name]() if name != 'default' else rr()

      keys = f(r)
      backups = self.model_split(mi, n, None)
      want, pos = self.model[mi][name].draw()
      for ms, key, count in backups:
        ms.key, ms.count = key, count
      self.compare(oi, f'vmap-draw({name})', keys, want, pos)
      res.probe('vmap_draw')
      for nm in sorted(self.model[mi]):
        self.draw(oi, mi, nm, 'draw-after-vmap')
    elif k == 'clone':
      if len(self.real) >= 4:
        return
      c = nnx.clone(r)
      self.real.append(c)
      m = {}
      for nm, ms in self.model[mi].items():
        x = MStream(ms.key)
        x.count = ms.count.copy()
        m[nm] = x
      self.model.append(m)
      # the clone continues from the same positions (the model predicts the duplicates) and is independent
      for nm in sorted(m):
        self.draw(oi, len(self.real) - 1, nm, 'draw-from-clone')
      for nm in sorted(self.model[mi]):
        self.draw(oi, mi, nm, 'draw-from-original')
    else:
      raise kernel.HarnessError('unknown op ' + k)
    self.log.add(oi, k, op.get('stream'))


# --------------------------------------------------------------------------
# Linen half: independent model of the derivation


def _val(x):
  if isinstance(x, dict) or hasattr(x, 'keys'):
    return tuple((k, _val(x[k])) for k in sorted(x.keys()))
  if isinstance(x, (list, tuple)):
    return tuple(_val(v) for v in x)
  a = np.asarray(x)
  return (str(a.dtype), a.shape, a.tobytes())


def model_key(seed_key, parts, separator):
  m = hashlib.sha1()
  for x in parts:
    if separator:
      m.update(b'\x00')
    if isinstance(x, str):
      m.update(x.encode('utf-8'))
    else:
      m.update(int(x).to_bytes((int(x).bit_length() + 7) // 8, 'big'))
  h = int.from_bytes(m.digest()[:4], 'big')
  return jax.random.fold_in(seed_key, np.uint32(h)), h


def apply_edit(spec, e, provided):
  """Returns (new_spec, new_provided): edits that must not move any surviving key."""
  sp = dict(spec, body=list(spec['body']))
  prov = dict(provided)
  k = e['kind']
  at = e['at'] % (len(sp['body']) + 1)
  if k == 'add_named_sibling':
    if sp['style'] == 'setup':
      at = len(sp['body'])  # setup-style children are named by their list position: only appending renames nobody
    sp['body'].insert(at, dict(i='child', times=1, mod=dict(style='compact', name='extra_sibling', body=[dict(i='param', name='w0', kind='bias'), dict(i='rng', stream=e['stream'])])))
  elif k == 'append_sibling':
    sp['body'].append(dict(i='child', times=1, mod=dict(style='compact', name=None, body=[dict(i='param', name='w0', kind='bias')])))
  elif k == 'add_var':
    sp['body'].insert(at, dict(i='var', col='cache', name='extra_var', kind='counter'))
  elif k == 'add_sow':
    sp['body'].insert(at, dict(i='sow', col='intermediates', name='extra_sow'))
  elif k == 'add_other_stream_draw':
    sp['body'].insert(at, dict(i='rng', stream='extra_stream'))
    prov['extra_stream'] = 9
  elif k == 'add_stream':
    prov['unused_stream'] = 5
  elif k == 'remove_stream':
    used = P.streams_used(spec)
    for s in list(prov):
      if s != 'params' and s not in used:
        prov.pop(s)
  return sp, prov


class LinenRun:
  def __init__(self, plan, res, log):
    self.plan, self.res, self.log = plan, res, log
    self.compared = 0

  def collect(self, oi, spec, provided, what):
    """init + apply of `spec`; returns {(phase, path, stream, n): key bytes}; checks every key against the model."""
    k = self.plan['knobs']
    sep = k['separator']
    m = P.make(spec)
    x = P.make_input(k['batch'], 1)
    seeds = {s: jax.random.key(100 + v) for s, v in provided.items()}
    out = {}
    self.values = []
    for phase in ('init', 'apply'):
      P.CTL.reset(record=True)
      if phase == 'init':
        y, variables = m.init_with_output(dict(seeds), x)
        self.values.append(('init', _val((y, variables))))
      else:
        r = m.apply(variables, x, rngs=dict(seeds), mutable=True)
        self.values.append(('apply', _val(r)))
      counts = {}
      seen_models = {}
      for path, strm, b in P.CTL.keys:
        eff = strm if strm in provided else 'params'
        if eff != strm:
          self.res.probe('linen_fallback_params')
        c = counts[(path, eff)] = counts.get((path, eff), 0) + 1
        want, h = model_key(seeds[eff], tuple(path) + (c,), sep)
        wb = bytes(np.asarray(jax.random.key_data(want)))
        if b != wb:
          raise Violation('key-differs-from-model', f'{what} {phase}: key at path {"/".join(path)} stream {strm!r} (count {c}) is not fold_in(seed[{eff!r}], sha1(path + count)) (separator={sep})')
        self.compared += 1
        pos = (eff, tuple(path), c)
        hk = (bytes(np.asarray(jax.random.key_data(seeds[eff]))), h)
        if hk in seen_models and seen_models[hk] != pos:
          self.res.probe('hash_collision_skipped')
        else:
          seen_models[hk] = pos
        out[(phase, tuple(path), strm, c)] = b
      # pairwise distinct within one call (modulo the derivation's own truncation, handled above)
      by_key = {}
      for pos, b in out.items():
        if pos[0] != phase:
          continue
        if b in by_key:
          p2 = by_key[b]
          same_seed = bytes(np.asarray(jax.random.key_data(seeds[pos[2] if pos[2] in provided else 'params']))) == bytes(np.asarray(jax.random.key_data(seeds[p2[2] if p2[2] in provided else 'params'])))
          if not (same_seed and pos[1] == p2[1] and pos[3] == p2[3]):
            raise Violation('key-reused', f'{what} {phase}: positions {p2[1:]} and {pos[1:]} received the same key')
        by_key[b] = pos
      if phase == 'init':
        self.res.probe('init_keys_checked')
    P.CTL.reset()
    return out

  def run(self):
    k = self.plan['knobs']
    self.res.probe('separator_on' if k['separator'] else 'separator_off')
    if k.get('jit_child'):
      self.res.probe('linen_jit_child')
      cache = {}

      def hook(mod, ins):
        if 'jit' not in cache:
          cache['jit'] = nn.jit(P.CProg)
        return cache['jit'](spec=P.dumps(ins['mod']))

      P.CHILD_HOOK[0] = hook
    base = self.collect(-1, k['spec'], k['provided'], 'base program')
    v1 = self.values
    again = self.collect(-1, k['spec'], k['provided'], 'base program (again)')
    if base != again:
      raise Violation('keys-not-deterministic', 'the same program with the same seeds produced different keys')
    if self.values != v1:
      raise Violation('keys-not-deterministic', 'the same program with the same seeds produced different values on its second run in this process (RNG-derived values are the proxy for keys drawn inside nn.jit)')
    third = self.collect(-1, k['spec'], k['provided'], 'base program (third run)')
    if third != base or self.values != v1:
      raise Violation('keys-not-deterministic', 'the same program with the same seeds produced different keys / values on its third run in this process')
    self.log.add('base', len(base))
    for oi, e in enumerate(self.plan['ops']):
      sp2, prov2 = apply_edit(k['spec'], e, k['provided'])
      if prov2.keys() != k['provided'].keys() and any((s not in prov2) != (s not in k['provided']) for s in P.streams_used(k['spec'])):
        continue
      got = self.collect(oi, sp2, prov2, f'op {oi} after edit {e["kind"]}')
      moved = [p for p in base if p in got and got[p] != base[p]]
      # auto-named siblings are addressed by their generated name: inserting one renames nobody here (explicit name / appended last)
      if moved:
        raise Violation('edit-moved-keys', f'op {oi}: after {e["kind"]} the keys at positions {moved[:4]} changed')
      missing = [p for p in base if p not in got]
      if missing:
        raise Violation('edit-moved-keys', f'op {oi}: after {e["kind"]} positions {missing[:4]} no longer receive a key')
      self.res.probe('edit_invariance_checked')
      self.log.add(oi, e['kind'], len(got))


MCLS = {}


def method_class(streams, lift='jit', cached=True, sep=None):
  # one process-lived class per value of the separator flag: the flag is read while tracing, and flipping a start-up
  # configuration flag under warm caches is not part of any program
  key = (tuple(streams), lift, sep)
  if cached and key in MCLS:
    return MCLS[key]

  class Noise(nn.Module):
    strm: str = 'noise'

    @nn.compact
    def __call__(self):
      return jax.random.key_data(self.make_rng(self.strm))

  ns = {}

  def setup(self):
    for i, s_ in enumerate(streams):
      setattr(self, f'c{i}', Noise(strm=s_))

  ns['setup'] = setup
  for i in range(len(streams)):
    def plain(self, _i=i):
      return getattr(self, f'c{_i}')()

    def fast(self, _i=i):
      return getattr(self, f'c{_i}')()

    ns[f'plain{i}'] = plain
    ns[f'fast{i}'] = (nn.jit if lift == 'jit' else nn.fold_rngs)(fast)
  cls = type('MethodsModel', (nn.Module,), ns)
  if cached:
    MCLS[key] = cls
  return cls


class MethodsRun:
  """Keys inside a lifted method go through the transform's rng forking, so the reference is not the closed-form model
  but twins of the same program: the process-lived nn.jit class (caches warm from every earlier script of this and of
  earlier runs), a class built just now (cold caches) and the untraced nn.fold_rngs twin -- one program, one seed, one
  list of keys.  Scripts made of plain calls only are checked against the closed-form model as well."""

  def __init__(self, plan, res, log):
    self.plan, self.res, self.log = plan, res, log
    self.compared = 0

  def run(self):
    k = self.plan['knobs']
    sep = k['separator']
    hot = method_class(k['streams'], sep=sep)
    seeds = {s_: jax.random.key(100 + v) for s_, v in k['provided'].items()}
    self.res.probe('linen_method_runs')
    for oi, op in enumerate(self.plan['ops']):
      calls = op['calls']
      method = lambda m: [getattr(m, f'{kind}{i}')() for kind, i in calls]  # noqa: E731
      out = [np.asarray(x).tobytes() for x in hot().apply({}, rngs=dict(seeds), method=method)]
      cold = [np.asarray(x).tobytes() for x in method_class(k['streams'], cached=False)().apply({}, rngs=dict(seeds), method=method)]
      fold = [np.asarray(x).tobytes() for x in method_class(k['streams'], lift='fold')().apply({}, rngs=dict(seeds), method=method)]
      for name, other in (('the same program on a freshly built class (cold transform caches)', cold), ('its untraced nn.fold_rngs twin', fold)):
        bad = [j for j, (a_, b_) in enumerate(zip(out, other)) if a_ != b_]
        if bad:
          raise Violation('keys-not-deterministic', f'op {oi} script {calls}: call #{bad[0]} {calls[bad[0]]} received a different key than in {name}')
      counts = {}
      seen = {}
      kinds_per_child = {}
      only_plain = all(kind == 'plain' for kind, _ in calls)
      for (kind, i), gb in zip(calls, out):
        strm = k['streams'][i]
        eff = strm if strm in seeds else 'params'
        c = counts[(i, eff)] = counts.get((i, eff), 0) + 1
        if only_plain:
          want, _ = model_key(seeds[eff], (f'c{i}', c), sep)
          if gb != np.asarray(jax.random.key_data(want)).tobytes():
            raise Violation('key-differs-from-model', f'op {oi} script {calls}: call #{len(seen)} (child c{i}, stream {strm!r}, count {c}) did not receive fold_in(seed[{eff!r}], sha1(path + count)) (separator={sep})')
        if gb in seen:
          raise Violation('key-reused', f'op {oi} script {calls}: calls {seen[gb]} and {(kind, i, c)} received the same key')
        seen[gb] = (kind, i, c)
        kinds_per_child.setdefault(i, set()).add(kind)
        self.compared += 1
      if any(len(v) == 2 for v in kinds_per_child.values()):
        self.res.probe('plain_and_jitted_method_share_child')
      self.log.add(oi, 'script', len(calls))


ATTR_CLS = {}


def attr_classes(n, lift, sep, cold=False):
  key = (n, lift, sep)
  if key in ATTR_CLS and not cold:
    return ATTR_CLS[key]

  class Noise(nn.Module):
    @nn.compact
    def __call__(self):
      return jax.random.key_data(self.make_rng('noise'))

  ann = {f'm{i}': nn.Module for i in range(n)}

  def call(self, order):
    return [getattr(self, f'm{i}')() for i in order]

  User = type('User', (nn.Module,), {'__annotations__': ann, '__call__': call})
  U = {'jit': lambda c: nn.jit(c, static_argnums=(1,)), 'fold': nn.fold_rngs, 'plain': lambda c: c}[lift](User)

  class Top(nn.Module):
    order: tuple = ()

    @nn.compact
    def __call__(self):
      kids = [Noise(name=f'kid{i}') for i in range(n)]
      out = U(*kids)(self.order)
      # ... and the caller goes on drawing from every child after the lifted call: these draws continue where the calls
      # inside left off, whatever `order` (a static argument of the lifted function) an EARLIER use of the class had
      return out + [kid() for kid in kids]

  if not cold:
    ATTR_CLS[key] = Top
  return Top


class AttrRun:
  """Children created by the caller ('kid0', 'kid1', ...) and handed to another module as attributes: whatever lifts
  that module, two different children never receive the same key, and the keys are a function of the program."""

  def __init__(self, plan, res, log):
    self.plan, self.res, self.log = plan, res, log
    self.compared = 0

  def run(self):
    k = self.plan['knobs']
    self.res.probe('linen_attr_runs')
    # the same class with two different values of the static / Python argument `order`, one after the other
    # (... and the first value again: now a cache hit whose record must still be the one of ITS trace)
    for calls in [k['calls']] + ([k['calls2'], k['calls']] if k.get('calls2') else []):
      self.run_order(tuple(calls))

  def run_order(self, order):
    k = self.plan['knobs']
    Top = attr_classes(k['n'], k['lift'], k['separator'])
    outs = []
    for _ in range(2):
      out = Top(order=order).apply({}, rngs={'noise': jax.random.key(70 + k['seed'])})
      outs.append([np.asarray(x).tobytes() for x in out])
    if outs[0] != outs[1]:
      raise Violation('keys-not-deterministic', 'attribute-module program: the same program with the same seed drew different keys on its second run')
    if k['lift'] != 'plain':
      # the process-lived class has a history (other `order`s, i.e. other static arguments, in earlier runs of this
      # process); a class built just now has none: same program, same seed -> same keys
      cold = attr_classes(k['n'], k['lift'], k['separator'], cold=True)(order=order).apply({}, rngs={'noise': jax.random.key(70 + k['seed'])})
      if [np.asarray(x).tobytes() for x in cold] != outs[0]:
        raise Violation('keys-depend-on-history', f'attribute-module program lifted with {k["lift"]!r}, order {list(order)}: the keys differ from those of a freshly built class (the lifted function was used with another static argument earlier in this process)')
      self.res.probe('attr_cold_class_compared')
    seen = {}
    counts = {}
    order = order + tuple(range(k['n']))  # the draws made by the caller after the lifted call, one per child
    for pos, (i, kb) in enumerate(zip(order, outs[0])):
      c = counts[i] = counts.get(i, 0) + 1
      if kb in seen:
        raise Violation('key-reused', f'children handed to a module lifted with {k["lift"]!r}: draw #{c} of child kid{i} received the key of draw #{seen[kb][1]} of child kid{seen[kb][0]}')
      seen[kb] = (i, c)
      self.compared += 1
    if k['lift'] == 'plain':
      seeds = jax.random.key(70 + k['seed'])
      counts = {}
      for i, kb in zip(order, outs[0]):
        c = counts[i] = counts.get(i, 0) + 1
        want, _ = model_key(seeds, (f'kid{i}', c), k['separator'])
        if kb != np.asarray(jax.random.key_data(want)).tobytes():
          raise Violation('key-differs-from-model', f'attribute-module program (plain): child kid{i} draw {c} is not fold_in(seed, sha1(path + count))')
    self.log.add('attr', len(order))


class MapvRun:
  """Keys handed out inside an identity nn.map_variables(..., init=True): lift.map_variables runs the wrapped body more
  than once while initialising; every key that user code receives during ONE init - by an initialiser or by make_rng,
  in whichever pass - is a different key, and the same init twice hands out the same keys."""

  def __init__(self, plan, res, log):
    self.plan, self.res, self.log = plan, res, log
    self.compared = 0

  def once(self):
    k = self.plan['knobs']
    got = []

    def rec_init(key, shape, dtype=jnp.float32):
      if not isinstance(key, jax.core.Tracer):  # (Scope.param re-runs initialisers abstractly, on a dummy key, to check shapes)
        got.append(('init', np.asarray(jax.random.key_data(key)).tobytes()))
      return jnp.zeros(shape, dtype)

    class Inner(nn.Module):
      @nn.compact
      def __call__(self, x):
        for i in range(k['n_params']):
          x = x + self.param(f'w{i}', rec_init, (2,))
        got.append(('draw', np.asarray(jax.random.key_data(self.make_rng(k['draw_stream']))).tobytes()))
        return x

    Mapped = nn.map_variables(Inner, k['col'], mutable=k['mutable'], init=True)

    class Outer(nn.Module):
      @nn.compact
      def __call__(self, x):
        return Mapped(name='m')(x)

    rngs = {'params': jax.random.key(90 + k['seed'])}
    if k['draw_stream'] == 'noise':
      rngs['noise'] = jax.random.key(95 + k['seed'])
    Outer().init(rngs, jnp.zeros((2,), jnp.float32))
    return got

  def run(self):
    self.res.probe('linen_mapv_runs')
    a, b = self.once(), self.once()
    if a != b:
      raise Violation('keys-not-deterministic', 'init of a module under nn.map_variables(init=True): the same program with the same seeds handed out different keys on its second run')
    seen = {}
    for n, (what, kb) in enumerate(a):
      if kb in seen:
        raise Violation('key-reused', f'init of a module under nn.map_variables(init=True): key #{n} ({what}) is the key already handed out as #{seen[kb][0]} ({seen[kb][1]}) in the same init')
      seen[kb] = (n, what)
      self.compared += 1
    self.log.add('mapv', len(a))


class LoopRun:
  """Keys drawn inside nn.while_loop: predicate and body are traced, so the draws are observed at run time through
  jax.debug.callback.  With the stream split per iteration every draw of one apply is a different key; with the stream
  broadcast the keys repeat per iteration by construction, but predicate, body and the code around the loop still
  never share one.  Same program, same seed -> same keys."""

  def __init__(self, plan, res, log):
    self.plan, self.res, self.log = plan, res, log
    self.compared = 0

  def once(self):
    k = self.plan['knobs']
    rec = []

    def note(tag):
      return lambda v: rec.append((tag, np.asarray(v).tobytes()))

    class Loop(nn.Module):
      @nn.compact
      def __call__(self, x):
        if k['pre']:
          rec.append(('pre', np.asarray(jax.random.key_data(self.make_rng('loop'))).tobytes()))

        def cond_fn(m, c):
          for j in range(k['n_cond']):
            jax.debug.callback(note(f'cond{j}'), jax.random.key_data(m.make_rng('loop')))
          return c['i'] < k['trips']

        def body_fn(m, c):
          for j in range(k['n_body']):
            jax.debug.callback(note(f'body{j}'), jax.random.key_data(m.make_rng('loop')))
          return {'i': c['i'] + 1}

        nn.while_loop(cond_fn, body_fn, self, {'i': jnp.zeros((), jnp.int32)}, split_rngs={'loop': k['split']})
        if k['post']:
          rec.append(('post', np.asarray(jax.random.key_data(self.make_rng('loop'))).tobytes()))
        return x

    Loop().apply({}, jnp.zeros(()), rngs={'loop': jax.random.key(50 + k['seed'])})
    jax.effects_barrier()
    return rec

  def run(self):
    k = self.plan['knobs']
    self.res.probe('linen_loop_runs')
    a = self.once()
    b = self.once()
    if a != b:
      raise Violation('keys-not-deterministic', 'nn.while_loop program: the same program with the same seed drew different keys on its second run')
    seen = {}
    for tag, kb in a:
      if kb in seen and (k['split'] or seen[kb] != tag):
        raise Violation('key-reused', f'nn.while_loop(split_rngs={k["split"]}, trips={k["trips"]}): draws {seen[kb]!r} and {tag!r} of one apply received the same key')
      seen[kb] = tag
      self.compared += 1
    if any(t.startswith('cond') for t, _ in a) and any(t.startswith('body') for t, _ in a):
      self.res.probe('draws_in_loop_predicate_and_body')
    self.log.add('loop', len(a))


def execute(plan):
  res = Result()
  log = kernel.Log()
  viol = None
  k = plan['knobs']
  oi, op = -1, {}
  compared = 0
  old = flax.config.flax_fix_rng_separator
  try:
    if k['kind'] == 'nnx':
      res.probe('nnx_runs')
      w = NnxWorld(plan, res, log)
      try:
        for oi, op in enumerate(plan['ops']):
          w.step(oi, op)
      finally:
        compared = w.compared
    elif k['kind'] in ('linen_methods', 'linen_loop', 'linen_attr', 'linen_mapv'):
      flax.config.update('flax_fix_rng_separator', k['separator'])
      lr = {'linen_methods': MethodsRun, 'linen_loop': LoopRun, 'linen_attr': AttrRun, 'linen_mapv': MapvRun}[k['kind']](plan, res, log)
      try:
        lr.run()
      finally:
        compared = lr.compared
    else:
      res.probe('linen_runs')
      flax.config.update('flax_fix_rng_separator', k['separator'])
      lr = LinenRun(plan, res, log)
      try:
        lr.run()
      finally:
        compared = lr.compared
  except Violation as v:
    viol = dict(kind=v.kind, detail=v.detail)
  except (kernel.HarnessError, RecursionError):
    raise
  except Exception as e:  # noqa: BLE001
    if not kernel.through_sut(e):
      raise
    viol = dict(kind='unexpected-exception', detail=f'op {oi} {op.get("op")}: {type(e).__name__}: {str(e)[:500]}')
  finally:
    flax.config.update('flax_fix_rng_separator', old)
    P.CTL.reset()
    P.CHILD_HOOK[0] = None
  res.steps = compared
  res.ops = len(plan['ops'])
  res.digest = log.digest()
  res.nontrivial = compared >= 3
  res.violation = viol
  return res
