"""C05 - lifted jit/remat/cond/switch/while_loop/map_variables act like the plain code.

linenworld twins: the same program spec is interpreted twice, once *plain* (Python if / index / while
where the lifted twin uses nn.cond / nn.switch / nn.while_loop; nothing where it uses nn.jit, nn.remat,
identity nn.map_variables) and once *lifted*.  The plain twin - real flax code with the transform taken
out - is the reference.  One set of lifted module classes is used for a whole history while attributes,
variable structure, mutability, rngs, init-vs-apply and predicates / indices / trip counts change between
calls, so both trace-cache hits and misses occur; some calls are aborted by an injected exception inside
the traced body before the next cache lookup.
"""
from __future__ import annotations

from sim import kernel, programs as P
from sim.kernel import Result, Violation, stream

PROP = 'C05'
TIERS = {
  'quick': dict(runs=700, deadline=100, workers=16),
  'thorough': dict(runs=40000, deadline=840, workers=16),
}
SELFTEST_RUNS = 96
GC_EVERY = 10  # lifted classes are cyclic garbage holding compiled executables; uncollected they exhaust the JIT code memory
CLEAR_JAX_CACHES_EVERY = 25
RULE = (
  'each run = one history (4..10 calls) on one twin program: a root module with 1-3 named children, each optionally lifted '
  '(nn.jit class transform, nn.jit method decorator, nn.remat, identity nn.map_variables over params or a mutable collection) '
  'and optionally a control-flow instruction (nn.cond / nn.switch / nn.while_loop with carry collection); calls are init or apply '
  'with a generated mutable filter, an integer attribute k of the lifted child that changes between calls, variables with an '
  'extra collection or extra variable added, predicate / branch index / trip count drawn per call, repeated calls, and injected '
  'exceptions at callback events inside lifted bodies. Every call runs on both twins and outputs, returned collections, init '
  'trees and error classes are compared bytewise (under nn.jit, RNG-derived values are compared for determinism only). '
  'Non-trivial = at least one lifted construct executed in >= 2 calls; distinct = distinct event-log digest.'
)
STEP_UNIT = 'callback events executed inside module bodies (both twins)'
COMPONENTS = {'real': ['flax/linen/transforms.py (jit, remat/checkpoint, cond, switch, while_loop, map_variables, _HashableProxy, _module_fingerprint)', 'flax/core/lift.py', 'flax/core/scope.py'], 'stub': ['module bodies are interpreters over generated program specs']}
ASSUMPTIONS = [
  'if plain and lifted twins are wrong in the same way this check is silent (that is C01/C02/C12 territory)',
  'lifted classes are created fresh per history, so trace caches never leak between histories',
  'under nn.jit RNG-derived values are only required to be a deterministic function of the call site (the property says so); they are not compared with the plain twin',
]
PROBES = ['lift_jit', 'jit_methods', 'jit_inner_method', 'while_cond_write_raises', 'lift_jit_method', 'lift_remat', 'lift_mapv_params', 'lift_mapv_mutable', 'cond', 'switch', 'while', 'attr_changed_between_calls', 'varstruct_changed_between_calls', 'mutable_changed_between_calls', 'repeat_same_call', 'fault_inside_lifted', 'write_immutable_same_error', 'jit_rng_deterministic', 'region_jit', 'region_remat', 'cold_twin_compared']

CROSS_RUN_STATE = True


def setup_worker(w, tier):
  global np, jax, jnp, nn, flax, errors, FrozenDict, JitMethodProg
  P.setup()
  np, jax, jnp, nn, flax = P.np, P.jax, P.jnp, P.nn, P.flax
  from flax import errors
  from flax.core import FrozenDict
  from typing import Callable, Optional

  class KProg(nn.Module):
    """A child whose integer attribute k enters the computation: a stale trace shows up as an old k.
    `act` is a functools.partial attribute (an activation with a keyword setting) that carries the same number."""

    spec: str
    k: int = 0
    act: Optional[Callable] = None

    @nn.compact
    def __call__(self, x):
      y = P.run_body(self, P.parse(self.spec), x, {}) + float(self.k)
      return self.act(y) if self.act is not None else y

  class JitMethodProg(nn.Module):
    spec: str
    k: int = 0
    act: Optional[Callable] = None

    @nn.jit
    @nn.compact
    def __call__(self, x):
      y = P.run_body(self, P.parse(self.spec), x, {}) + float(self.k)
      return self.act(y) if self.act is not None else y

  class KProg2(nn.Module):
    """Two public methods on one setup-style module; the lifted twin is nn.jit(KProg2, methods=[both])."""

    k: int = 0

    def setup(self):
      self.wa = self.param('wa', lambda key, shape: jnp.full(shape, 3.0, jnp.float32), (P.D,))
      self.n_alt = self.variable('stats', 'n_alt', lambda: jnp.zeros((), jnp.float32))

    def __call__(self, x):
      return x + self.wa + float(self.k)

    def alt(self, x):
      if self.is_mutable_collection('stats') and not self.is_initializing():
        self.n_alt.value = self.n_alt.value + 1.0
      return x * 2.0 - self.wa + float(3 * self.k + 1) + self.n_alt.value

  def make_inner(jit):
    class KInner(nn.Module):
      """A compact parent that creates `pre` auto-named children and then calls a helper method (plain / nn.jit) that
      creates one more auto-named child of the same class."""

      spec: str
      pre: int = 0
      post: bool = False

      def helper(self, x, reps=1):
        # `reps` is a static ARGUMENT (not an attribute: the module fingerprint does not see it)
        for _ in range(reps):
          x = KProg(spec=self.spec)(x)
        return x + 1.0

      if jit:
        helper = nn.jit(helper, static_argnames=('reps',))

      @nn.compact
      def __call__(self, x, reps=1):
        for _ in range(self.pre):
          x = KProg(spec=self.spec)(x)
        x = self.helper(x, reps=reps)
        if self.post:
          # one more auto-named child AFTER the jitted helper (a jit-cache hit must replay the auto-name cursor the helper leaves behind)
          x = KProg(spec=self.spec)(x)
        return x

    return KInner

  globals()['KProg'] = KProg
  globals()['KProg2'] = KProg2
  globals()['make_inner'] = make_inner
  globals()['KInnerPlain'] = make_inner(False)
  P.EXT['kinner'] = ext_kinner
  P.EXT['kchild'] = ext_kchild
  P.EXT['kmeth'] = ext_kmeth
  P.EXT['cond'] = ext_cond
  P.EXT['switch'] = ext_switch
  P.EXT['while'] = ext_while
  P.EXT['region'] = ext_region


class Env:
  """Per-call environment shared by both twins (set by the harness before each call)."""

  plain = True
  k = 0
  pred = True
  idx = 0
  trips = 1
  classes = {}
  used = set()
  mapv_init = False
  ctl_preinit = True
  cond_write_lifted = False


ENV = Env()


def lifted_class(kind, init, mutable_col):
  """Lifted module classes are created once per history and reused across calls (that is where the caches live)."""
  key = (kind, init if kind.startswith('mapv') else None, mutable_col if kind == 'mapv_mut' else None)
  c = ENV.classes.get(key)
  if c is None:
    if kind == 'jit':
      c = nn.jit(KProg)
    elif kind == 'jit_method':
      c = JitMethodProg
    elif kind == 'remat':
      c = nn.remat(KProg)
    elif kind == 'mapv_params':
      c = nn.map_variables(KProg, 'params', init=init)
    elif kind == 'mapv_mut':
      c = nn.map_variables(KProg, ['stats', 'batch_stats', 'cache'], mutable=mutable_col, init=init)
    else:
      raise ValueError(kind)
    ENV.classes[key] = c
  return c


_ACTS = {}


def _shift(x, d=0.0):
  return x + d


def act_for(d):
  """One functools.partial object per keyword value, alive for the whole process (partials are hashed by identity:
  an id() recycled after garbage collection must not look like an unchanged attribute)."""
  if d not in _ACTS:
    import functools

    _ACTS[d] = functools.partial(_shift, d=float(d))
  return _ACTS[d]


def ext_kchild(mod, ins, x, n, made):
  sub = made.get(n)
  if sub is None:
    spec = P.dumps(ins['mod'])
    lift = ins.get('lift')
    kw = dict(k=ENV.k if ins.get('use_k') else 0)
    if ins.get('act') and ins.get('use_k'):
      kw = dict(k=0, act=act_for(ENV.k))  # the number travels in the keyword of a partial-valued attribute instead
    if ENV.plain or not lift:
      sub = KProg(spec=spec, name=ins['name'], **kw)
    else:
      ENV.used.add(lift)
      mut = any(mod.is_mutable_collection(c) for c in ('stats', 'batch_stats', 'cache'))
      if lift in ('mapv_mut', 'mapv_params') and mod.is_initializing() and not ENV.mapv_init and (lift == 'mapv_mut' or ins.get('has_rng')):
        # map_variables(init=True) over non-param collections runs the body twice (known finding
        # map-variables-init-runs-body-twice); most histories initialise this child through the plain class
        cls = KProg
      else:
        cls = lifted_class(lift, mod.is_initializing(), mut)
      sub = cls(spec=spec, name=ins['name'], **kw)
    made[n] = sub
  for _ in range(ins.get('times', 1)):
    P.CTL.event('child-call')
    x = sub(x)
  return x


def ext_kinner(mod, ins, x, n, made):
  sub = made.get(n)
  if sub is None:
    pre = ins['pre']  # fixed per instruction: init and apply must see the same structure
    if ENV.plain:
      cls = KInnerPlain
    else:
      ENV.used.add('jit_inner_method')
      cls = ENV.classes.get('jit_inner_method')
      if cls is None:
        cls = ENV.classes['jit_inner_method'] = make_inner(True)
    sub = made[n] = cls(spec=P.dumps(ins['mod']), pre=pre, post=bool(ins.get('post')), name=ins['name'])
  P.CTL.event('child-call')
  return sub(x, ins.get('reps', 1))


def ext_kmeth(mod, ins, x, n, made):
  """One child, several public methods called in a generated order; lifted twin: nn.jit(Class, methods=[...])."""
  sub = made.get(n)
  if sub is None:
    k = ENV.k if ins.get('use_k') else 0
    if ENV.plain:
      cls = KProg2
    else:
      ENV.used.add('jit_methods')
      cls = ENV.classes.get('jit_methods')
      if cls is None:
        cls = ENV.classes['jit_methods'] = nn.jit(KProg2, methods=['__call__', 'alt'])
    sub = made[n] = cls(k=k, name=ins['name'])
  for m in ins['seq']:
    P.CTL.event('child-call')
    x = sub(x) if m == 'call' else sub.alt(x)
  return x


def ext_region(mod, ins, x, n, made):
  """A child g used in plain code BEFORE (ENV.k times) and AFTER a function-lifted region (nn.jit / nn.remat of a
  function of the module) that uses the same child: rng counters and variables of g are shared across the boundary."""
  ENV.used.add('region_' + ins['lift'])
  gspec = ins['mod']
  gname = ins['name'] + '_g'
  g = made.get(n)
  if g is None:
    g = made[n] = P.make(gspec, name=gname)
  for _ in range(ENV.k if ins.get('use_k') else 1):
    P.CTL.event('region-pre')
    x = g(x)
  own = bool(ins.get('own_draw'))

  def own_draw(m, x):
    # the enclosing module itself draws (inside the region and, below, again after it)
    return x + jax.random.randint(m.make_rng('dropout'), x.shape, -3, 4).astype(jnp.float32)

  if ENV.plain:
    P.CTL.event('region')
    x = g(x)
    if own:
      x = own_draw(mod, x)
  else:
    key = ('region', ins['lift'], ins['name'])
    fn = ENV.classes.get(key)
    if fn is None:
      def body(m, x):
        P.CTL.event('region')
        x = P.make(gspec, name=gname)(x)
        return own_draw(m, x) if own else x

      if ins.get('rfilter'):
        # only the listed sequences are lifted (the region draws from no other); the call still receives more sequences
        fn = ENV.classes[key] = nn.remat(body, rngs=list(ins['rfilter']))
      else:
        fn = ENV.classes[key] = (nn.jit if ins['lift'] == 'jit' else nn.remat)(body)
    x = fn(mod, x)
  P.CTL.event('region-post')
  if own:
    x = own_draw(mod, x)
  return g(x)


def _bump(m, name, plain_vars, d=1.0):
  if ENV.plain:
    v = plain_vars[name]
  else:
    v = m.variable('stats', name, lambda: jnp.zeros((), jnp.float32))
  if m.is_mutable_collection('stats'):
    P.CTL.event('ctl-write')
    v.value = v.value + d


def _declare(mod, names):
  return {nm: mod.variable('stats', nm, lambda: jnp.zeros((), jnp.float32)) for nm in names}


def ext_cond(mod, ins, x, n, made):
  ENV.used.add('cond')
  pv = _declare(mod, [ins['name'] + '_t', ins['name'] + '_f'])
  subspec = ins['mod']
  holder = {}

  def sub_of(m):
    if ENV.plain:
      if 's' not in holder:
        holder['s'] = P.make(subspec, name=ins['name'] + '_sub')
      return holder['s']
    return P.make(subspec, name=ins['name'] + '_sub')

  pre_inst = [None]
  if ENV.ctl_preinit:
    if ENV.plain:
      x = sub_of(mod)(x)
    else:
      pre_inst[0] = P.make(subspec, name=ins['name'] + '_sub')
      x = pre_inst[0](x)

  def tf(m, x):
    P.CTL.event('cond-true')
    _bump(m, ins['name'] + '_t', pv)
    return sub_of(m)(x)

  def ff(m, x):
    P.CTL.event('cond-false')
    _bump(m, ins['name'] + '_f', pv)
    return -sub_of(m)(x)

  if ENV.plain:
    y = tf(mod, x) if ENV.pred else ff(mod, x)
  else:
    y = nn.cond(jnp.asarray(ENV.pred), tf, ff, mod, x)
  if ENV.ctl_preinit and ins.get('post'):
    # plain use of the SAME bound instance after the transform (it bound its variables before the transform)
    y = sub_of(mod)(y) if ENV.plain else pre_inst[0](y)
  return y


def ext_switch(mod, ins, x, n, made):
  ENV.used.add('switch')
  pv = _declare(mod, [ins['name'] + '_c'])
  subspec = ins['mod']
  holder = {}

  def mk(i):
    def b(m, x):
      P.CTL.event('switch-branch')
      _bump(m, ins['name'] + '_c', pv, float(i + 1))
      if ENV.plain:
        if 's' not in holder:
          holder['s'] = P.make(subspec, name=ins['name'] + '_sub')
        s = holder['s']
      else:
        s = P.make(subspec, name=ins['name'] + '_sub')
      return s(x) * float(i + 1)

    return b

  bs = [mk(i) for i in range(3)]
  pre_inst = None
  if ENV.ctl_preinit:
    if ENV.plain:
      holder['s'] = P.make(subspec, name=ins['name'] + '_sub')
      x = holder['s'](x)
    else:
      pre_inst = P.make(subspec, name=ins['name'] + '_sub')
      x = pre_inst(x)
  if ENV.plain:
    y = bs[ENV.idx](mod, x)
  else:
    y = nn.switch(jnp.asarray(ENV.idx), bs, mod, x)
  if ENV.ctl_preinit and ins.get('post'):
    y = holder['s'](y) if ENV.plain else pre_inst(y)
  return y


def ext_while(mod, ins, x, n, made):
  ENV.used.add('while')
  cw = bool(ins.get('cond_writes')) and not mod.is_initializing()
  pv = _declare(mod, [ins['name'] + '_n'] + ([ins['name'] + '_c'] if ins.get('cond_writes') else []))
  subspec = ins['mod']
  first = P.make(subspec, name=ins['name'] + '_sub')
  x = first(x)  # variables must exist before the loop
  trips = ENV.trips

  def cond_fn(m, c):
    if cw:
      # a predicate that counts its own evaluations: fine in the Python loop (when 'stats' is mutable), while the
      # lifted predicate sees read-only variables -- the write must raise there, it must never be dropped silently
      if ENV.plain:
        v = pv[ins['name'] + '_c']
      else:
        ENV.cond_write_lifted = True
        v = m.variable('stats', ins['name'] + '_c', lambda: jnp.zeros((), jnp.float32))
      v.value = v.value + 1.0
    return c['i'] < trips

  def body_fn(m, c):
    P.CTL.event('while-body')
    _bump(m, ins['name'] + '_n', pv)
    s = first if ENV.plain else P.make(subspec, name=ins['name'] + '_sub')
    return {'i': c['i'] + 1, 'x': s(c['x'])}

  c = {'i': jnp.zeros((), jnp.int32), 'x': x}
  if ENV.plain:
    while bool(cond_fn(mod, c)):
      c = body_fn(mod, c)
    return c['x']
  # a careful user only declares a carry collection that is mutable in this call
  carry = 'stats' if mod.is_mutable_collection('stats') else False
  return nn.while_loop(cond_fn, body_fn, mod, c, carry_variables=carry)['x']


# --------------------------------------------------------------------------
# generation


def gen_nested_sub(g, allow_rng):
  """Top -> Mid -> leaf, setup-defined: the leaf binds its variable dicts when first used."""
  leaf = [dict(i='var', col='stats', name='v0', kind='counter'), dict(i='param', name='w0', kind='bias')]
  if allow_rng:
    leaf.append(dict(i='rng', stream='dropout'))
  mid = dict(style=g.choice(['setup', 'setup', 'compact']), name=None, body=[dict(i='child', times=1, mod=dict(style=g.choice(['setup', 'compact']), name=None, body=leaf))])
  return dict(style='setup', name=None, body=[dict(i='child', times=1, mod=mid)])


def gen_sub(g, allow_rng, stats_ok=True, sow_ok=True):
  allow = ['param', 'param', 'var'] + (['rng'] if allow_rng else [])
  body = []
  for i in range(g.randrange(1, 4)):
    a = g.choice(allow)
    if a == 'param':
      body.append(dict(i='param', name=f'w{i}', kind=g.choice(['bias', 'scalar'])))
    elif a == 'var':
      body.append(dict(i='var', col=g.choice(['stats', 'batch_stats', 'cache']) if stats_ok else 'stats', name=f'v{i}', kind='counter'))
    else:
      body.append(dict(i='rng', stream=g.choice(['dropout', 'noise'])))
  if not any(b['i'] == 'param' for b in body):
    body.append(dict(i='param', name='wz', kind='bias'))
  if sow_ok and g.random() < 0.25:
    body.append(dict(i='sow', col='intermediates', name='s0'))
  return dict(style='compact', name=None, body=body)


def _has_param(spec):
  return any(i['i'] == 'param' or (isinstance(i.get('mod'), dict) and _has_param(i['mod'])) for i in spec['body'])


def generate(rs, tier):
  g = stream(rs, 'gen')
  body = [dict(i='param', name='w_root', kind='bias')]
  if g.random() < 0.4:
    body.append(dict(i='var', col='stats', name='v_root', kind='counter'))
  nchild = g.choice([1, 1, 2, 3])
  for c in range(nchild):
    lift = g.choice([None, 'jit', 'jit', 'jit_method', 'remat', 'mapv_params', 'mapv_mut'])
    rng_ok = lift not in ('jit', 'jit_method') or g.random() < 0.3
    sub = gen_sub(g, rng_ok and g.random() < 0.5)
    body.append(dict(i='kchild', name=f'c{c}', mod=sub, lift=lift, use_k=g.random() < 0.7, times=g.choice([1, 1, 2]), has_rng=any(b['i'] == 'rng' for b in sub['body']), act=g.random() < 0.3))
  r = g.random()
  if r < 0.2:
    # branches may draw random keys: since the repair of the shared branch counters (DESIGN.md 10.3) they receive the
    # keys of the equivalent Python `if`
    body.append(dict(i='cond', name='cf', post=g.random() < 0.8, mod=gen_nested_sub(g, g.random() < 0.7) if g.random() < 0.4 else gen_sub(g, g.random() < 0.7, stats_ok=False, sow_ok=False)))
  elif r < 0.35:
    body.append(dict(i='switch', name='sw', post=g.random() < 0.8, mod=gen_nested_sub(g, g.random() < 0.7) if g.random() < 0.4 else gen_sub(g, g.random() < 0.7, stats_ok=False, sow_ok=False)))
  if body[-1]['i'] in ('cond', 'switch') and g.random() < 0.5 and not any(b['i'] == 'rng' for b in body[-1]['mod']['body']):
    # draws inside the branches and, through the same bound instance, before and after the construct
    body[-1]['mod']['body'].append(dict(i='rng', stream=g.choice(['dropout', 'noise'])))
  elif r < 0.5 and body[-1]['i'] not in ('cond', 'switch'):
    body.append(dict(i='while', name='wl', cond_writes=g.random() < 0.3, mod=gen_sub(g, False, stats_ok=False, sow_ok=False)))  # non-carry collections are read-only inside the loop body
  if g.random() < 0.3:
    lift = g.choice(['jit', 'jit', 'remat'])
    body.append(dict(i='region', name='rg', lift=lift, use_k=g.random() < 0.8, mod=gen_nested_sub(g, g.random() < 0.6) if g.random() < 0.6 else gen_sub(g, g.random() < 0.5)))
    if lift == 'remat' and g.random() < 0.5 and 'noise' not in P.streams_used(body[-1]['mod']):
      body[-1]['mod']['body'].append(dict(i='rng', stream='dropout'))
    used = P.streams_used(body[-1]['mod'])
    if lift == 'remat' and used and used <= {'dropout'} and g.random() < 0.8:
      body[-1]['rfilter'] = ['dropout']
      body[-1]['own_draw'] = g.random() < 0.7
      if _has_param(body[-1]['mod']):
        # the child must see its first use - and initialise its parameters - outside the region (inside, 'params' is not lifted)
        body[-1]['use_k'] = False
  if g.random() < 0.3:
    body.append(dict(i='rng', stream='dropout'))
  if g.random() < 0.2:
    # one or two instances of the same class with a different number of auto-named children before the jitted helper
    pres = g.sample([0, 1, 2], g.choice([1, 2, 2]))
    reps = [g.choice([1, 1, 2, 3]) for _ in pres]
    posts = [g.random() < 0.6 for _ in pres]
    if g.random() < 0.4:
      # three instances with the same module fingerprint (same number of children before the helper); the helper's
      # static argument goes a, b, a: the third call is a jit-cache hit on the first trace after the second was made
      a_, b_ = g.sample([1, 2, 3], 2)
      pres, reps, posts = [pres[0]] * 3, [a_, b_, a_], [g.random() < 0.5, g.random() < 0.5, True]
    for j, pre in enumerate(pres):
      body.append(dict(i='kinner', name=f'ki{j}', pre=pre, reps=reps[j], post=posts[j], mod=dict(style='compact', name=None, body=[dict(i='param', name='w0', kind='bias')])))
  if g.random() < 0.22:
    body.append(dict(i='kmeth', name='km', use_k=g.random() < 0.6, seq=[g.choice(['call', 'alt']) for _ in range(g.randrange(1, 4))],
                     mod=dict(style='setup', name=None, body=[dict(i='param', name='wa', kind='bias'), dict(i='var', col='stats', name='n_alt', kind='counter')])))
  g.shuffle(body)
  spec = dict(style='compact', name=None, body=body)
  jit_rng = None
  if g.random() < 0.25:
    jit_rng = dict(style='compact', name=None, body=[dict(i='kchild', name='jr', lift=g.choice(['jit', 'jit_method']), use_k=False, times=2, mod=dict(style='compact', name=None, body=[dict(i='param', name='w0', kind='bias'), dict(i='rng', stream='dropout')]))])
  ops = [dict(op='init', seed=g.randrange(4), k=g.choice([0, 1, 2, 0, 1, -1, -2]), pred=True, idx=g.randrange(3), trips=g.randrange(0, 3))]
  last = None
  for _ in range(g.randrange(3, 10)):
    r = g.random()
    if last is not None and r < 0.25:
      ops.append(dict(last))  # exact repetition: cache hit
      continue
    op = dict(op='apply', seed=g.randrange(4), k=g.choice([0, 1, 2, 0, 1, -1, -2]), pred=g.random() < 0.5, idx=g.randrange(3), trips=g.randrange(0, 4),
              mutable=gen_mut(g), vars_edit=g.choice([None, None, None, 'extra_collection', 'extra_variable']), vars=g.randrange(4))
    f = g.random()
    if f < 0.15:
      op['fault'] = {'at': g.randrange(64)}
    elif f < 0.27:
      op['write'] = g.choice(['stats', 'cache', 'aux'])
    elif f < 0.33:
      op = dict(op='init', seed=g.randrange(4), k=g.choice([0, 1, 2, 0, 1, -1, -2]), pred=g.random() < 0.5, idx=g.randrange(3), trips=g.randrange(0, 3))
    ops.append(op)
    last = op
  return dict(engine='linenworld-twins', knobs=dict(spec=spec, jit_rng=jit_rng, batch=g.choice([1, 2]), mapv_init=g.random() < 0.1, ctl_preinit=g.random() < 0.5), ops=ops)


def gen_mut(g):
  r = g.random()
  if r < 0.2:
    return False
  if r < 0.45:
    return True
  if r < 0.6:
    return 'stats'
  if r < 0.85:
    return g.sample(['stats', 'batch_stats', 'cache', 'intermediates', 'params'], g.randrange(1, 4))
  return {'deny': g.choice(['stats', 'params', 'intermediates'])}


SHRINK_LISTS = ['ops']


def signature(plan, v):
  k = plan['knobs']
  has_mapv_mut = any(i.get('lift') == 'mapv_mut' or (i.get('lift') == 'mapv_params' and i.get('has_rng')) for i in k['spec']['body'])
  sig = dict(mapv_mut_init=bool(k.get('mapv_init') and has_mapv_mut))
  if any(i['i'] == 'kinner' and i.get('post') for i in k['spec']['body']):
    sig['auto_named_child_after_jitted_helper'] = True
  return sig


def in_filter(f, col):
  if isinstance(f, bool):
    return f
  if isinstance(f, str):
    return col == f
  if isinstance(f, list):
    return col in f
  return not in_filter(f['deny'], col)


def real_filter(f):
  if isinstance(f, dict):
    return flax.core.DenyList(f['deny'])
  return f


def val(x):
  if isinstance(x, (dict, FrozenDict)):
    return ('map', tuple((k, val(x[k])) for k in sorted(x.keys())))
  if isinstance(x, (list, tuple)):
    return (type(x).__name__, tuple(val(v) for v in x))
  if hasattr(x, 'dtype'):
    a = np.asarray(x)
    if a.dtype.kind == 'f':
      a = a + a.dtype.type(0)  # -0.0 and +0.0 are the same value (sign of zero may differ between execution paths)
    return ('arr', str(a.dtype), a.shape, a.tobytes())
  return ('v', repr(x))


def struct(x):
  if isinstance(x, (dict, FrozenDict)):
    return ('map', tuple((k, struct(x[k])) for k in sorted(x.keys())))
  if isinstance(x, (list, tuple)):
    return (type(x).__name__, tuple(struct(v) for v in x))
  if hasattr(x, 'dtype'):
    return ('arr', str(x.dtype), tuple(x.shape))
  return ('v', repr(x))


def _has_rng(sp):
  for ins in sp['body']:
    if ins['i'] == 'rng':
      return True
    if isinstance(ins.get('mod'), dict) and _has_rng(ins['mod']):
      return True
  return False


def has_jit(spec):
  return any((ins['i'] == 'kchild' and ins.get('lift') in ('jit', 'jit_method')) or (ins['i'] == 'region' and ins['lift'] == 'jit') or ins['i'] in ('kmeth', 'kinner') for ins in spec['body'])


def has_jit_rng_dependence(spec):
  """True when values depend on RNG drawn (or parameters initialised) inside a jit-lifted body: under nn.jit such
  values are only promised to be a deterministic function of the call site, not equal to the plain code."""
  for ins in spec['body']:
    if ins['i'] == 'kchild' and ins.get('lift') in ('jit', 'jit_method'):
      return True
    if ins['i'] == 'region' and ins['lift'] == 'jit':
      return True
    if ins['i'] == 'kinner':
      return True
  return False


def apply_depends_on_jit_rng(spec):
  # a jit-lifted construct forks the RNG counters of the enclosing scope, so draws anywhere at or below the scope that
  # contains it may differ from the plain twin ("a deterministic function of the call site under jit")
  if has_jit(spec) and _has_rng(spec):
    return True
  for ins in spec['body']:
    if ins['i'] == 'kchild' and ins.get('lift') in ('jit', 'jit_method') and _has_rng(ins['mod']):
      return True
    if ins['i'] == 'region' and ins['lift'] == 'jit' and _has_rng(ins['mod']):
      return True
  return False


class TwinWorld:
  def __init__(self, plan, res, log):
    self.plan, self.res, self.log = plan, res, log
    k = plan['knobs']
    self.spec = k['spec']
    self.x = P.make_input(k['batch'], 1)
    self.vars = []
    self.events = 0
    self.prev = None
    self.lift_calls = 0
    ENV.classes = {}
    ENV.used = set()
    ENV.mapv_init = bool(k.get('mapv_init'))
    ENV.ctl_preinit = bool(k.get('ctl_preinit', True))
    self.jit_init = has_jit_rng_dependence(self.spec)
    self.jit_any = has_jit(self.spec)
    self.jit_rng_apply = apply_depends_on_jit_rng(self.spec)

  def setenv(self, op, plain):
    ENV.plain = plain
    ENV.k = op['k']
    ENV.pred = op['pred']
    ENV.idx = op['idx']
    ENV.trips = op['trips']

  def rngs(self, seed, init):
    r = {'dropout': jax.random.fold_in(jax.random.key(seed), 1), 'noise': jax.random.fold_in(jax.random.key(seed), 2)}
    if init:
      r['params'] = jax.random.fold_in(jax.random.key(seed), 0)
    return r

  def run(self, op, plain, fn, fault_at=None, cold=False):
    self.setenv(op, plain)
    ENV.cond_write_lifted = False
    P.CTL.reset(fail_at=fault_at)
    warm = ENV.classes
    if cold:
      ENV.classes = {}  # brand-new lifted classes / functions: empty trace caches, no history
    try:
      out = ('ok', fn())
    except P.InjectedFault as e:
      out = ('exc', 'InjectedFault')
    except errors.FlaxError as e:
      out = ('exc', type(e).__name__)
    finally:
      ENV.classes = warm
    self.events += P.CTL.count
    return out

  def cold_check(self, oi, op, fn, warm_out, what):
    """The long-lived lifted classes (whatever their trace caches saw before) must behave like brand-new ones."""
    if not self.jit_any:
      return
    c = self.run(op, False, fn, cold=True)
    if c[0] != warm_out[0] or (c[0] == 'ok' and val(c[1]) != val(warm_out[1])):
      raise Violation('stale-trace', f'op {oi} {what}: the lifted twin whose trace caches have a history returned {_short(val(warm_out[1])) if warm_out[0] == "ok" else warm_out}, freshly created lifted classes return {_short(val(c[1])) if c[0] == "ok" else c} for the same call')
    self.res.probe('cold_twin_compared')

  def step(self, oi, op):
    res = self.res
    spec = self.spec
    if self.prev is not None and self.prev.get('op') == op.get('op'):
      if op == self.prev:
        res.probe('repeat_same_call')
      else:
        if op['k'] != self.prev['k']:
          res.probe('attr_changed_between_calls')
        if op.get('mutable') != self.prev.get('mutable'):
          res.probe('mutable_changed_between_calls')
        if op.get('vars_edit') != self.prev.get('vars_edit'):
          res.probe('varstruct_changed_between_calls')
    self.prev = op
    m = P.make(spec)
    if op['op'] == 'init':
      rngs = self.rngs(op['seed'], True)
      a = self.run(op, True, lambda: m.init_with_output(rngs, self.x))
      b = self.run(op, False, lambda: m.init_with_output(rngs, self.x))
      if a[0] != 'ok':
        raise kernel.HarnessError(f'plain twin init failed: {a}')
      if b[0] != 'ok':
        raise Violation('lifted-raises', f'op {oi} init: plain twin succeeds but the lifted twin raises {b[1]}')
      (ya, va), (yb, vb) = a[1], b[1]
      if struct(va) != struct(vb):
        raise Violation('init-tree-differs', f'op {oi} init: variable tree of the lifted twin {struct(vb)} differs from plain {struct(va)}')
      if not self.jit_init:
        if val(va) != val(vb) or val(ya) != val(yb):
          raise Violation('init-values-differ', f'op {oi} init: values initialised/returned by the lifted twin differ from the plain twin (no jit involved)')
      else:
        b2 = self.run(op, False, lambda: m.init_with_output(rngs, self.x))
        if b2[0] != 'ok' or val(b2[1]) != val(b[1]):
          raise Violation('jit-init-not-deterministic', f'op {oi} init: the jitted twin initialised different values on an identical second call')
      self.cold_check(oi, op, lambda: m.init_with_output(rngs, self.x), b, 'init')
      self.vars.append(va)
      self.log.add(oi, 'init', kernel.digest(struct(va)))
      return
    # apply
    if not self.vars:
      return
    v = self.vars[op['vars'] % len(self.vars)]
    v = flax.core.unfreeze(v)
    if op.get('vars_edit') == 'extra_collection':
      v = dict(v, extra_col={'zzz': np.ones((), np.float32)})
    elif op.get('vars_edit') == 'extra_variable':
      v = dict(v, stats=dict(v.get('stats', {}), zzz_extra=np.ones((), np.float32)))
    F = op['mutable']
    use = m
    if op.get('write'):
      wsp = dict(spec, body=spec['body'] + [dict(i='write', col=op['write'], name='wx')])
      use = P.make(wsp)
    rngs = self.rngs(op['seed'], False)
    fn = lambda: use.apply(v, self.x, rngs=rngs, mutable=real_filter(F))
    a = self.run(op, True, fn)
    n_events = P.CTL.count
    b = self.run(op, False, fn)
    if ENV.used:
      self.lift_calls += 1
    for u in ENV.used:
      res.probe({'jit': 'lift_jit', 'jit_method': 'lift_jit_method', 'remat': 'lift_remat', 'mapv_params': 'lift_mapv_params', 'mapv_mut': 'lift_mapv_mutable'}.get(u, u))
    if ENV.cond_write_lifted and a[0] == 'ok' and b == ('exc', 'ModifyScopeVariableError'):
      # the lifted predicate tried to write: refused loudly, as promised for variables a transform does not carry
      res.probe('while_cond_write_raises')
      self.log.add(oi, 'apply', 'cond-write-refused')
      return
    if a[0] != b[0] or (a[0] == 'exc' and a[1] != b[1]):
      raise Violation('twins-disagree-on-error', f'op {oi} apply(mutable={F!r}, write={op.get("write")}): plain twin {a[0]} {a[1] if a[0] == "exc" else ""}, lifted twin {b[0]} {b[1] if b[0] == "exc" else ""}')
    if a[0] == 'exc':
      if op.get('write'):
        res.fault('write_immutable')
        res.probe('write_immutable_same_error')
      self.log.add(oi, 'apply', 'exc', a[1])
      return
    self.cold_check(oi, op, fn, b, f'apply(mutable={F!r}, k={op["k"]})')
    if self.jit_rng_apply:
      if struct(a[1]) != struct(b[1]):
        raise Violation('lifted-differs-from-plain', f'op {oi} apply(mutable={F!r}): structure of the lifted twin\'s result differs from the plain twin')
    elif val(a[1]) != val(b[1]):
      raise Violation('lifted-differs-from-plain', f'op {oi} apply(mutable={F!r}, k={op["k"]}, pred={op["pred"]}, idx={op["idx"]}, trips={op["trips"]}, vars_edit={op.get("vars_edit")}): lifted twin returned {_short(val(b[1]))}, plain twin {_short(val(a[1]))}')
    if op.get('fault'):
      at = op['fault']['at'] % max(1, n_events)
      fb = self.run(op, False, fn, fault_at=at)
      if P.CTL.fired:
        res.fault('raise@callback')
        res.probe('fault_inside_lifted')
        if fb[0] == 'ok':
          raise Violation('exception-swallowed', f'op {oi}: exception injected at callback event {at} inside the lifted twin did not reach the caller')
      b3 = self.run(op, False, fn)
      if b3[0] != 'ok' or val(b3[1]) != val(b[1]):
        raise Violation('lifted-differs-after-aborted-trace', f'op {oi}: after an aborted call the lifted twin no longer matches the plain twin')
    self.log.add(oi, 'apply', repr(F), kernel.digest(val(a[1])))

  def jit_rng_check(self):
    sp = self.plan['knobs'].get('jit_rng')
    if not sp:
      return
    m = P.make(sp)
    op = dict(k=0, pred=True, idx=0, trips=0)
    r1 = self.rngs(1, True)
    a = self.run(op, False, lambda: m.init_with_output(r1, self.x))
    b = self.run(op, False, lambda: m.init_with_output(r1, self.x))
    if a[0] != 'ok' or b[0] != 'ok' or val(a[1]) != val(b[1]):
      raise Violation('jit-rng-not-deterministic', 'random draws under nn.jit differ between two identical calls')
    v = a[1][1]
    ys = [self.run(op, False, lambda: m.apply(v, self.x, rngs=self.rngs(1, False))) for _ in range(3)]
    if any(y[0] != 'ok' for y in ys) or len({val(y[1]) for y in ys}) != 1:
      raise Violation('jit-rng-not-deterministic', 'random draws under nn.jit differ between identical apply calls (first call traces, later calls hit the cache)')
    self.res.probe('jit_rng_deterministic')


def _short(x):
  s = repr(x)
  return s if len(s) < 400 else s[:400] + '...'


def execute(plan):
  res = Result()
  log = kernel.Log()
  viol = None
  w = None
  oi, op = -1, {}
  try:
    w = TwinWorld(plan, res, log)
    for oi, op in enumerate(plan['ops']):
      w.step(oi, op)
    w.jit_rng_check()
  except Violation as v:
    viol = dict(kind=v.kind, detail=v.detail)
  except (kernel.HarnessError, RecursionError):
    raise
  except Exception as e:  # noqa: BLE001
    if not kernel.through_sut(e):
      raise
    viol = dict(kind='unexpected-exception', detail=f'op {oi} {op.get("op")} (plain twin={ENV.plain}): {type(e).__name__}: {str(e)[:500]}')
  finally:
    P.CTL.reset()
    ENV.classes = {}
  res.steps = w.events if w else 0
  res.ops = len(plan['ops'])
  res.digest = log.digest()
  res.nontrivial = bool(w and w.lift_calls >= 2)
  res.violation = viol
  return res
