"""C01 - Linen init/apply are pure functions with an explicit mutability contract.

linenworld: long-lived module instances, variable dicts, RNG dicts and inputs; histories of
init / apply / bind / functional-core calls, some of which are made to fail half-way (an injected
exception at callback event e) or to write a collection the filter excludes.  Nothing an earlier
call did - returned or aborted - may be visible in the inputs or in a later call.
"""
from __future__ import annotations

import dataclasses
import gc

from sim import kernel, programs as P
from sim.kernel import Result, Violation, stream

PROP = 'C01'
TIERS = {
  'quick': dict(runs=9000, deadline=50, workers=16),
  'thorough': dict(runs=250000, deadline=800, workers=16),
}
SELFTEST_RUNS = 200
CROSS_RUN_STATE = True  # the property is about hidden process state: violations are confirmed in a fresh interpreter
RULE = (
  'each run = one history (<= 12 ops) over 1-2 generated Linen programs (compact/setup style, nested, re-called '
  'submodules, explicit and automatic names, module passed as attribute; params, counters, running statistics, sow, '
  'perturb, make_rng): init / init_with_output / apply with a generated mutable filter (False/True/name/list/DenyList) / '
  'bind+call+unbind / functional-core init+apply, repeated calls, observation variants (capture_intermediates, sows '
  'removed, no perturbation collection), with injected faults: an exception raised at callback event e of the body, a write '
  'to a collection outside the filter, gc events. Oracles: deep snapshot (structure, container identities, bytes) of every '
  'world object before == after every op; memo model of repeated calls; returned-collections rule by the harness\'s own '
  'filter evaluator; error rule. Non-trivial = a fault fired or >= 3 calls executed; distinct = distinct event-log digest.'
)
STEP_UNIT = 'callback events executed inside module bodies'
COMPONENTS = {'real': ['flax/linen/module.py (init, init_with_output, apply, bind, unbind, sow, perturb, variable, param, make_rng)', 'flax/core/scope.py (Scope, init, apply, mutability filters)', 'flax/core/frozen_dict.py'], 'stub': ['module bodies are interpreters over generated program specs (harness code running inside real nn.Module subclasses)']}
ASSUMPTIONS = [
  'thread isolation is asserted only in its weakest form: two threads doing INDEPENDENT calls (own module instances, own variables) interleaved at callback events each return what they return alone; nothing is asserted about threads sharing a bound module or a scope',
  'exceptions are injected at callback boundaries of module bodies, not between two bytecodes of flax itself',
  'all arithmetic is small integers in float32, so byte comparison is exact however XLA fuses',
]
PROBES = ['numpy_variables', 'route_twice', 'late_collection_created_in_second_call', 'fault_in_setup_or_body', 'write_outside_filter_raises', 'write_inside_filter_ok', 'repeat_checked', 'memo_hit_after_fault', 'frozen_returns', 'bind_unbind', 'core_api', 'observe_capture', 'observe_strip_sow', 'observe_no_perturb_col', 'collections_rule_checked', 'inner_module_attr', 'gc_event', 'context_intercept', 'context_named_call_on', 'context_named_call_off', 'context_tabulate', 'concurrent_interleaved', 'inner_from_bound_model', 'inner_below_unbound_container', 'route_nn_init', 'route_nn_apply', 'route_method_str', 'route_method_fn', 'filter_set_reused']

errors = None


def setup_worker(w, tier):
  global np, jax, jnp, nn, flax, errors, core, FrozenDict
  P.setup()
  np, jax, jnp, nn, flax = P.np, P.jax, P.jnp, P.nn, P.flax
  from flax import errors
  from flax import core
  from flax.core import FrozenDict


# --------------------------------------------------------------------------
# generation


def gen_filter(g):
  r = g.random()
  cols = ['params', 'stats', 'batch_stats', 'cache', 'intermediates', 'aux', 'perturbations']
  if r < 0.15:
    return False
  if r < 0.35:
    return True
  if r < 0.5:
    return g.choice(cols)
  if r < 0.68:
    return g.sample(cols, g.randrange(1, 4))
  if r < 0.78:
    return {'set': sorted(g.sample(cols, g.randrange(1, 4)))}  # a Python set object, kept and reused by the caller
  if r < 0.9:
    return {'deny': g.choice(cols)}
  return {'deny': g.sample(cols, g.randrange(1, 3))}


def generate(rs, tier):
  g = stream(rs, 'gen')
  nprog = g.choice([1, 1, 2])
  progs = []
  for _ in range(nprog):
    sp = P.gen_module(g)
    if sp['style'] == 'compact' and g.random() < 0.15:
      # a library layer (nn.Conv with a numpy mask) among the generated instructions
      sp['body'].insert(g.randrange(len(sp['body']) + 1), dict(i='libconv', name='conv_lib'))
    inner = None
    inner_from = None
    if g.random() < 0.28:
      inner = P.gen_module(g, depth=2, allow=('param', 'var'))
      sp['body'].insert(g.randrange(len(sp['body']) + 1), dict(i='inner'))
      # the module handed in as an attribute may come out of an earlier model that is still bound (and alive):
      # directly, or one level below an unbound container module
      inner_from = g.choice([None, None, 'bound', 'bound_nested', 'nested'])
    progs.append(dict(spec=sp, inner=inner, inner_from=inner_from, batch=g.choice([1, 2, 3])))
  ops = []
  for i in range(nprog):
    # np_copy: the caller also keeps the initialised variables as host-side numpy arrays (a restored checkpoint) and applies those
    ops.append(dict(op='init', prog=i, seed=g.randrange(5), batch=g.choice([1, 2, 3]), fill=g.randrange(3), with_output=g.random() < 0.5, np_copy=g.random() < 0.35))
  for _ in range(g.randrange(2, 11)):
    r = g.random()
    base = dict(prog=g.randrange(nprog), vars=g.randrange(8), seed=g.randrange(5), batch=g.choice([1, 2, 3]), fill=g.randrange(3))
    if r < 0.1:
      ops.append(dict(base, op='init', with_output=g.random() < 0.5, fault=({'at': g.randrange(64)} if g.random() < 0.3 else None), via=g.choice(['init', 'init', 'nn_init'])))
    elif r < 0.55:
      op = dict(base, op='apply', mutable=gen_filter(g), repeat=g.choice([1, 1, 2, 3]))
      # the same call through the other public routes: nn.apply(fn, module), method='__call__', method=callable
      op['vias'] = [g.choice(['apply', 'apply', 'nn_apply', 'method_str', 'method_fn']) for _ in range(op['repeat'])]
      f = g.random()
      if f < 0.22:
        op['fault'] = {'at': g.randrange(64)}
      elif f < 0.4:
        op['write'] = {'col': g.choice(['stats', 'cache', 'aux', 'batch_stats']), 'name': 'wx'}
      elif f < 0.52:
        # nn.apply(fn, module) with a function that calls the SAME bound module twice; a collection first comes into
        # being during the second call
        op['twice'] = True
      ops.append(op)
    elif r < 0.65:
      ops.append(dict(base, op='bind', mutable=gen_filter(g)))
    elif r < 0.75:
      ops.append(dict(base, op='core', mutable=gen_filter(g), fault=({'at': g.randrange(8)} if g.random() < 0.3 else None)))
    elif r < 0.87:
      ops.append(dict(base, op='observe', how=g.choice(['capture', 'strip_sow', 'no_perturb_col']), mutable=gen_filter(g)))
    elif r < 0.90:
      # two threads, each doing its own independent call, interleaved at callback events by the seeded scheduler
      ops.append(dict(base, op='concurrent', prog2=g.randrange(nprog), vars2=g.randrange(8), seed2=g.randrange(5), kinds=[g.choice(['apply', 'apply_int', 'capture', 'init']), g.choice(['apply', 'apply_int', 'capture', 'init', 'construct'])], sched_seed=g.getrandbits(40)))
    elif r < 0.95:
      # process-global / thread-local context that must be unwound on every exit path
      ops.append(dict(base, op='context', how=g.choice(['intercept', 'intercept', 'named_call_on', 'named_call_off', 'tabulate']), fault=({'at': g.randrange(64)} if g.random() < 0.5 else None)))
    else:
      ops.append(dict(op='gc'))
  return dict(engine='linenworld', knobs=dict(frozen=g.random() < 0.4, progs=progs), ops=ops)


SHRINK_LISTS = ['ops']


def signature(plan, v):
  return {}


# --------------------------------------------------------------------------
# harness-side evaluators (no flax involved)


def in_filter(f, col):
  if isinstance(f, bool):
    return f
  if isinstance(f, str):
    return col == f
  if isinstance(f, list):
    return col in f
  if isinstance(f, dict) and 'set' in f:
    return col in f['set']
  if isinstance(f, dict):
    return not in_filter(f['deny'], col)
  raise ValueError(f)


def real_filter(f):
  if isinstance(f, dict) and 'set' in f:
    return set(f['set'])
  if isinstance(f, dict):
    d = f['deny']
    return flax.core.DenyList(d if isinstance(d, str) else tuple(d))
  if isinstance(f, list):
    return list(f)
  return f


def snap(x, depth=0):
  """Deep snapshot: structure, container identities, array bytes, key data, module fields."""
  if isinstance(x, (dict, FrozenDict)):
    return ('map', type(x).__name__, id(x), tuple((k, snap(x[k] if not isinstance(x, FrozenDict) else x._dict[k] if isinstance(x._dict[k], dict) else x[k], depth + 1)) for k in sorted(x.keys())))
  if isinstance(x, nn.Module):
    flds = tuple((f.name, snap(getattr(x, f.name), depth + 1)) for f in dataclasses.fields(x) if f.name != 'parent')
    d = vars(x)
    extra = tuple(sorted((k, _state_repr(v)) for k, v in d.items() if k not in {f.name for f in dataclasses.fields(x)}))
    return ('module', type(x).__name__, id(x), flds, repr(type(x.parent).__name__), extra)
  if isinstance(x, (list, tuple)):
    return (type(x).__name__, tuple(snap(v, depth + 1) for v in x))
  if hasattr(x, 'dtype') and hasattr(x, 'shape'):
    try:
      if jax.dtypes.issubdtype(x.dtype, jax.dtypes.prng_key):
        return ('key', bytes(np.asarray(jax.random.key_data(x))))
    except Exception:  # noqa: BLE001
      pass
    a = np.asarray(x)
    return ('arr', str(a.dtype), a.shape, a.tobytes(), id(x))
  return ('v', repr(x))


def _state_repr(v):
  if hasattr(v, '__dict__') and not isinstance(v, type):
    return (type(v).__name__, id(v), repr(sorted((k, repr(val)) for k, val in vars(v).items())))
  return (type(v).__name__, id(v) if not isinstance(v, (int, str, bool, type(None))) else repr(v))


def val(x):
  """Value-only snapshot (no identities) for outputs."""
  if isinstance(x, (dict, FrozenDict)):
    return ('map', tuple((k, val(x[k])) for k in sorted(x.keys())))
  if isinstance(x, (list, tuple)):
    return (type(x).__name__, tuple(val(v) for v in x))
  if hasattr(x, 'dtype'):
    a = np.asarray(x)
    if a.dtype.kind == 'f':
      a = a + a.dtype.type(0)  # -0.0 == +0.0 (x + 0 perturbation turns -0.0 into +0.0)
    return ('arr', str(a.dtype), a.shape, a.tobytes())
  return ('v', repr(x))


def container_ids(x, out):
  if isinstance(x, dict):
    out.add(id(x))
    for v in x.values():
      container_ids(v, out)
  elif isinstance(x, FrozenDict):
    container_ids(x._dict, out)
  return out


class LWorld:
  def __init__(self, plan, res, log):
    self.plan, self.res, self.log = plan, res, log
    k = plan['knobs']
    self.progs = k['progs']
    self.mods = []
    self.keep = []
    for p in self.progs:
      inner = P.make(p['inner'], name='inner_mod') if p['inner'] else None
      if inner is not None:
        res.probe('inner_module_attr')
        how = p.get('inner_from')
        if how in ('bound', 'bound_nested'):
          hspec = dict(style='setup', name=None, body=[dict(i='child', mod=p['inner'], times=1)])
          holder = P.make(hspec)
          P.CTL.reset()
          hv = holder.init(self.rngs([hspec], 0, True), P.make_input(1, 1))
          bound = holder.bind(hv, mutable=True)
          inner = bound.kids[0]
          if inner.scope is None:
            raise kernel.HarnessError('the submodule of a bound model is not bound')
          self.keep.append((bound, hv))
          P.CTL.reset()
          res.probe('inner_from_bound_model')
        if how in ('nested', 'bound_nested'):
          inner = P.make(dict(style='compact', name=None, body=[dict(i='inner')]), inner=inner, name='wrap')
          res.probe('inner_below_unbound_container')
      self.mods.append(P.make(p['spec'], inner=inner))
    self.vars = {i: [] for i in range(len(self.progs))}  # prog -> list of variable dicts
    self.memo = {}
    self.calls = 0
    self.events = 0
    self.after_fault = False

  def rngs(self, spec_all, seed, init):
    used = set()
    for sp in spec_all:
      used |= P.streams_used(sp)
    names = set(used)
    if init:
      names.add('params')
    return {n: jax.random.fold_in(jax.random.key(seed), i) for i, n in enumerate(sorted(names))}

  def specs(self, pi):
    p = self.progs[pi]
    return [p['spec']] + ([p['inner']] if p['inner'] else [])

  def world_snapshot(self):
    held = tuple((snap(hv), val(b.variables)) for b, hv in self.keep)
    return (tuple(snap(m) for m in self.mods), tuple(tuple(snap(v) for v in vs) for vs in self.vars.values()), held)

  def guarded(self, oi, what, fn, fault_at=None, record=False):
    """Runs one API call with the no-hidden-state oracle (a) around it.  Returns ('ok', result) | ('exc', e)."""
    before = self.world_snapshot()
    P.CTL.reset(fail_at=fault_at)
    try:
      out = ('ok', fn())
    except P.InjectedFault as e:
      out = ('exc', e)
    except (errors.ModifyScopeVariableError, errors.FlaxError) as e:
      out = ('exc', e)
    self.events += P.CTL.count
    self.calls += 1
    after = self.world_snapshot()
    if before != after:
      raise Violation('inputs-changed', f'op {oi} {what}: the module object, variables, rngs or arguments differ after the call ({out[0]}): {_diff(before, after)}')
    return out

  def twice(self, oi, op, use, v, x, rngs, F, rF, touched):
    """One apply in which the function handed to nn.apply calls the same bound module twice; the second call creates a
    variable in a collection ('late') that did not exist before: it must be returned like any other matching one."""
    res = self.res

    def two_calls(mod, xx):
      P.CTL.phase = 0
      mod(xx)
      P.CTL.phase = 1
      try:
        return mod(xx)
      finally:
        P.CTL.phase = 0

    def one_call(mod, xx):
      P.CTL.phase = 1
      try:
        return mod(xx)
      finally:
        P.CTL.phase = 0

    out = self.guarded(oi, 'apply(twice)', lambda: nn.apply(two_calls, use, mutable=rF)(v, x, rngs=rngs))
    if out[0] != 'ok':
      raise Violation('unexpected-exception', f'op {oi}: nn.apply of a function calling the module twice (mutable={F!r}) raised {type(out[1]).__name__}: {out[1]}')
    res.probe('route_twice')
    if F is False:
      self.log.add(oi, 'twice', 'immutable')
      return
    y, mut = out[1]
    self.check_returned_type(oi, mut)
    want = sorted(c for c in (set(v.keys()) | touched) if in_filter(F, c))
    got = sorted(mut.keys())
    if got != want:
      raise Violation('returned-collections-wrong', f'op {oi}: nn.apply(two calls, mutable={F!r}) returned collections {got}, every existing collection matching the filter is {want}')
    if 'late' in want:
      res.probe('late_collection_created_in_second_call')
      if float(np.asarray(mut['late']['n'])) != 1.0:
        raise Violation('returned-collections-wrong', f"op {oi}: the variable created in the second call came back as {mut['late']['n']!r}, it was written once")
      ref = self.guarded(oi, 'apply(once, late)', lambda: nn.apply(one_call, use, mutable=rF)(v, x, rngs=rngs))
      if ref[0] != 'ok' or sorted(ref[1][1].keys()) != want:
        raise Violation('returned-collections-wrong', f'op {oi}: the same writes in a single call return {sorted(ref[1][1].keys()) if ref[0] == "ok" else ref[1]!r}, expected {want}')
    self.log.add(oi, 'twice', got)

  def memo_check(self, oi, key, value, what):
    if key in self.memo:
      if self.memo[key] != value:
        raise Violation('not-repeatable', f'op {oi} {what}: same inputs gave a different result than an earlier identical call' + (' (after an aborted call)' if self.after_fault else ''))
      self.res.probe('repeat_checked')
      if self.after_fault:
        self.res.probe('memo_hit_after_fault')
    else:
      self.memo[key] = value

  def pick_vars(self, pi, j):
    vs = self.vars[pi]
    if not vs:
      return None, None
    j = j % len(vs)
    return j, vs[j]

  def step(self, oi, op):
    k = op['op']
    res = self.res
    if k == 'gc':
      gc.collect()
      res.fault('gc')
      res.probe('gc_event')
      self.log.add(oi, 'gc')
      return
    pi = op['prog']
    m = self.mods[pi]
    spec = self.progs[pi]['spec']
    x = P.make_input(self.progs[pi]['batch'], op['fill'])  # perturbation variables carry the batch shape: one batch size per program
    x_before = x.tobytes()
    if k == 'init':
      rngs = self.rngs(self.specs(pi), op['seed'], True)
      fn = (lambda: m.init_with_output(rngs, x)) if op['with_output'] else (lambda: (None, m.init(rngs, x)))
      if op.get('via') == 'nn_init':
        call = lambda mod, xx: mod(xx)  # noqa: E731
        fn = (lambda: nn.init_with_output(call, m)(rngs, x)) if op['with_output'] else (lambda: (None, nn.init(call, m)(rngs, x)))
        res.probe('route_nn_init')
      out = self.guarded(oi, 'init', fn)
      if out[0] != 'ok':
        raise Violation('unexpected-exception', f'op {oi} init raised {type(out[1]).__name__}: {out[1]}')
      n_events = P.CTL.count
      y, v = out[1]
      self.check_returned_type(oi, v)
      if 'intermediates' in v:
        raise Violation('returned-collections-wrong', f'op {oi} init returned the intermediates collection (default mutable excludes it)')
      self.memo_check(oi, ('init', pi, op['seed'], op['fill']), val(v), 'init')
      if op['with_output']:
        self.memo_check(oi, ('init-y', pi, op['seed'], op['fill']), val(y), 'init_with_output')
      if op.get('fault'):
        at = op['fault']['at'] % max(1, n_events)
        out2 = self.guarded(oi, 'init(fault)', fn, fault_at=at)
        if P.CTL.fired:
          res.fault('raise@callback')
          res.probe('fault_in_setup_or_body')
          self.after_fault = True
          if out2[0] == 'ok':
            raise Violation('exception-swallowed', f'op {oi}: the exception injected at callback event {at} did not reach the caller of init')
        out3 = self.guarded(oi, 'init(again)', fn)
        if out3[0] != 'ok' or val(out3[1][1]) != val(v):
          raise Violation('not-repeatable', f'op {oi}: init after an aborted init differs from the first init')
      self.vars[pi].append(v)
      if op.get('np_copy'):
        self.vars[pi].append(jax.tree_util.tree_map(lambda a: np.array(a), v))
        self.res.probe('numpy_variables')
      self.log.add(oi, 'init', sorted(v.keys()))
    elif k == 'apply':
      j, v = self.pick_vars(pi, op['vars'])
      if v is None:
        return
      F = op['mutable']
      rngs = self.rngs(self.specs(pi), op['seed'], 'params' in P.streams_used(spec))
      rF = real_filter(F)
      use = m
      touched = set()
      for sp in self.specs(pi):
        touched |= P.cols_touched(sp)
      if op.get('write'):
        wsp = dict(spec, body=spec['body'] + [dict(i='write', col=op['write']['col'], name=op['write']['name'])])
        use = P.make(wsp, inner=m.inner)
        touched.add(op['write']['col'])
      if op.get('twice') and spec['style'] == 'compact':  # (setup-style modules cannot declare variables in __call__)
        use = P.make(dict(spec, body=spec['body'] + [dict(i='late', col='late', name='n')]), inner=m.inner)
        if in_filter(F, 'late'):
          touched.add('late')
        self.twice(oi, op, use, v, x, rngs, F, rF, touched)
        return
      call = lambda mod, xx: mod(xx)  # noqa: E731
      routes = {
        'apply': lambda: use.apply(v, x, rngs=rngs, mutable=rF),
        'nn_apply': lambda: nn.apply(call, use, mutable=rF)(v, x, rngs=rngs),
        'method_str': lambda: use.apply(v, x, rngs=rngs, mutable=rF, method='__call__'),
        'method_fn': lambda: use.apply(v, x, rngs=rngs, mutable=rF, method=call),
      }
      fn = routes['apply']
      key = ('apply', pi, j, op['seed'], op['fill'], repr(F), repr(op.get('write')))
      first = None
      vias = op.get('vias') or ['apply'] * op['repeat']
      for rep in range(op['repeat']):
        via = vias[rep % len(vias)]
        if via != 'apply':
          res.probe('route_' + via)
        out = self.guarded(oi, 'apply', routes[via])
        if op.get('write') and not in_filter(F, op['write']['col']):
          if out[0] != 'exc' or not isinstance(out[1], errors.ModifyScopeVariableError):
            raise Violation('write-outside-filter-accepted', f'op {oi}: writing collection {op["write"]["col"]!r} with mutable={F!r} did not raise ModifyScopeVariableError ({out[0]}: {out[1] if out[0] == "exc" else "returned"})')
          res.fault('write_immutable')
          res.probe('write_outside_filter_raises')
          self.after_fault = True
          self.log.add(oi, 'apply', 'write-raises')
          return
        if out[0] != 'ok':
          raise Violation('unexpected-exception', f'op {oi} apply(mutable={F!r}) raised {type(out[1]).__name__}: {out[1]}')
        n_events = P.CTL.count
        if op.get('write'):
          res.probe('write_inside_filter_ok')
        r = out[1]
        if F is False:
          y, mut = r, None
        else:
          if not (isinstance(r, tuple) and len(r) == 2):
            raise Violation('returned-collections-wrong', f'op {oi}: apply(mutable={F!r}) did not return (output, variables)')
          y, mut = r
          self.check_returned_type(oi, mut)
          want = sorted(c for c in (set(v.keys()) | touched) if in_filter(F, c))
          got = sorted(mut.keys())
          if got != want:
            raise Violation('returned-collections-wrong', f'op {oi}: apply(mutable={F!r}) returned collections {got}, every existing collection matching the filter is {want}')
          res.probe('collections_rule_checked')
          if container_ids(mut, set()) & container_ids(v, set()):
            raise Violation('returned-shares-input', f'op {oi}: the returned variables share a dict object with the input variables')
        self.memo_check(oi, key, (val(y), val(mut) if mut is not None else None), 'apply')
        first = (y, mut)
        if isinstance(rF, set) and rF != set(F['set']):
          raise Violation('inputs-changed', f'op {oi}: the set passed as `mutable` was {sorted(F["set"])} and is {sorted(rF)} after the call')
      if op.get('fault'):
        at = op['fault']['at'] % max(1, n_events)
        out2 = self.guarded(oi, 'apply(fault)', fn, fault_at=at)
        if P.CTL.fired:
          res.fault('raise@callback')
          res.probe('fault_in_setup_or_body')
          self.after_fault = True
          if out2[0] == 'ok':
            raise Violation('exception-swallowed', f'op {oi}: the exception injected at callback event {at} did not reach the caller of apply')
        out3 = self.guarded(oi, 'apply(again)', fn)
        if out3[0] != 'ok':
          raise Violation('unexpected-exception', f'op {oi}: apply after an aborted apply raised {type(out3[1]).__name__}: {out3[1]}')
        r3 = out3[1]
        y3, mut3 = (r3, None) if F is False else r3
        self.memo_check(oi, key, (val(y3), val(mut3) if mut3 is not None else None), 'apply-after-fault')
      if first and first[1] is not None and len(self.vars[pi]) < 8 and not op.get('write'):
        merged = dict(flax.core.unfreeze(v))
        merged.update(flax.core.unfreeze(first[1]))
        merged.pop('intermediates', None)
        merged.pop('aux', None)
        self.vars[pi].append(flax.core.freeze(merged) if isinstance(v, FrozenDict) else merged)
      self.log.add(oi, 'apply', repr(F), op['repeat'])
    elif k == 'bind':
      j, v = self.pick_vars(pi, op['vars'])
      if v is None:
        return
      F = op['mutable']
      rngs = self.rngs(self.specs(pi), op['seed'], 'params' in P.streams_used(spec))

      def via_bind():
        b = m.bind(v, rngs=rngs, mutable=real_filter(F))
        y = b(x)
        m2, v2 = b.unbind()
        return y, m2, v2

      out = self.guarded(oi, 'bind', via_bind)
      ref = self.guarded(oi, 'apply(ref)', lambda: m.apply(v, x, rngs=rngs, mutable=real_filter(F)))
      if out[0] != ref[0]:
        raise Violation('bind-differs-from-apply', f'op {oi}: bind+call {out[0]} but apply {ref[0]} (mutable={F!r})')
      if out[0] == 'ok':
        y = out[1][0]
        yr = ref[1] if F is False else ref[1][0]
        if val(y) != val(yr):
          raise Violation('bind-differs-from-apply', f'op {oi}: bound module returned a different output than apply')
        if out[1][1] is m or out[1][1].scope is not None:
          raise Violation('bind-differs-from-apply', f'op {oi}: unbind did not return a fresh unbound module')
        res.probe('bind_unbind')
      self.log.add(oi, 'bind', out[0])
    elif k == 'core':
      self.core_op(oi, op, x)
    elif k == 'concurrent':
      self.concurrent(oi, op, x)
    elif k == 'context':
      j, v = self.pick_vars(pi, op['vars'])
      if v is None:
        return
      how = op['how']
      rngs = self.rngs(self.specs(pi), op['seed'], 'params' in P.streams_used(spec))
      plain = lambda: m.apply(v, x, rngs=rngs, mutable=False)
      base = self.guarded(oi, 'apply(base)', plain)
      if base[0] != 'ok':
        raise Violation('unexpected-exception', f'op {oi}: apply(mutable=False) raised {type(base[1]).__name__}: {base[1]}')
      n_events = P.CTL.count
      y0 = val(base[1])
      calls = [0]

      def interceptor(next_fun, args, kwargs, context):
        calls[0] += 1
        P.CTL.event('interceptor')
        return next_fun(*args, **kwargs)

      def inside():
        if how == 'intercept':
          with nn.intercept_methods(interceptor):
            return m.apply(v, x, rngs=rngs, mutable=False)
        if how in ('named_call_on', 'named_call_off'):
          with nn.override_named_call(how == 'named_call_on'):
            return m.apply(v, x, rngs=rngs, mutable=False)
        m.tabulate(rngs if 'params' in rngs else dict(rngs, params=jax.random.key(0)), x, console_kwargs={'force_terminal': False, 'width': 200})
        return m.apply(v, x, rngs=rngs, mutable=False)

      at = None
      if op.get('fault'):
        at = op['fault']['at'] % max(1, n_events * (3 if how == 'tabulate' else 2))
      o = self.guarded(oi, f'apply inside {how}', inside, fault_at=at)
      if P.CTL.fired:
        res.fault('raise@callback')
        self.after_fault = True
        if o[0] == 'ok':
          raise Violation('exception-swallowed', f'op {oi}: exception injected inside {how} did not reach the caller')
      elif o[0] != 'ok' or val(o[1]) != y0:
        raise Violation('context-changed-output', f'op {oi}: apply inside {how} returned something else than plain apply ({o[0]})')
      # afterwards nothing of the context may be left: the plain call behaves as before and is not intercepted
      calls[0] = 0
      again = self.guarded(oi, f'apply after {how}', plain)
      if again[0] != 'ok' or val(again[1]) != y0:
        raise Violation('context-leaked', f'op {oi}: after leaving {how}' + (' by an exception' if P.CTL.fired else '') + ' a plain apply no longer returns what it returned before')
      if calls[0]:
        raise Violation('context-leaked', f'op {oi}: the interceptor is still called {calls[0]} times after its context was left')
      res.probe('context_' + how)
      self.log.add(oi, 'context', how)
    elif k == 'observe':
      j, v = self.pick_vars(pi, op['vars'])
      if v is None:
        return
      how = op['how']
      rngs = self.rngs(self.specs(pi), op['seed'], 'params' in P.streams_used(spec))
      base = self.guarded(oi, 'apply(base)', lambda: m.apply(v, x, rngs=rngs, mutable=False))
      if base[0] != 'ok':
        raise Violation('unexpected-exception', f'op {oi}: apply(mutable=False) raised {type(base[1]).__name__}: {base[1]}')
      y0 = val(base[1])
      if how == 'capture':
        plain_int = lambda: m.apply(v, x, rngs=rngs, mutable=['intermediates'])
        before_int = self.guarded(oi, 'apply(intermediates)', plain_int)
        o = self.guarded(oi, 'apply(capture)', lambda: m.apply(v, x, rngs=rngs, mutable=['intermediates'], capture_intermediates=True))
        if o[0] != 'ok' or val(o[1][0]) != y0:
          raise Violation('observation-changed-output', f'op {oi}: capture_intermediates changed the primary output')
        n_ev = P.CTL.count
        # a caller-owned set as filter, reused for a capturing and then a plain call
        fs = {'stats', 'cache'} if op['seed'] % 2 else {'aux'}
        fs0 = set(fs)
        with_set = lambda: m.apply(v, x, rngs=rngs, mutable=fs)  # noqa: E731
        s_before = self.guarded(oi, 'apply(mutable=set)', with_set)
        self.guarded(oi, 'apply(mutable=set, capture)', lambda: m.apply(v, x, rngs=rngs, mutable=fs, capture_intermediates=True))
        if fs != fs0:
          raise Violation('inputs-changed', f'op {oi}: the set passed as `mutable` together with capture_intermediates=True was {sorted(fs0)} and is now {sorted(fs)}')
        s_after = self.guarded(oi, 'apply(mutable=set) again', with_set)
        if s_before[0] != s_after[0] or (s_before[0] == 'ok' and val(s_before[1]) != val(s_after[1])):
          raise Violation('not-repeatable', f'op {oi}: apply(mutable=<the same set object>) returns something else after a capturing call used that set')
        res.probe('filter_set_reused')
        # the same capturing call, aborted half-way by an exception inside a module body ...
        at = (op['seed'] * 7 + op['fill']) % max(1, n_ev)
        self.guarded(oi, 'apply(capture, fault)', lambda: m.apply(v, x, rngs=rngs, mutable=['intermediates'], capture_intermediates=True), fault_at=at)
        if P.CTL.fired:
          res.fault('raise@callback')
          self.after_fault = True
        # ... must leave no capture filter behind: a later NON-capturing call records what it recorded before
        after_int = self.guarded(oi, 'apply(intermediates) after failed capture', plain_int)
        if before_int[0] != after_int[0] or (before_int[0] == 'ok' and val(before_int[1]) != val(after_int[1])):
          raise Violation('context-leaked', f'op {oi}: after a capturing apply was aborted by an exception, a non-capturing apply(mutable=[intermediates]) returns different intermediates than before')
        res.probe('observe_capture')
      elif how == 'strip_sow':
        sp2 = P.strip(spec, ('sow',))
        m2 = P.make(sp2, inner=m.inner)
        o = self.guarded(oi, 'apply(no sow)', lambda: m2.apply(v, x, rngs=rngs, mutable=False))
        o2 = self.guarded(oi, 'apply(sow on)', lambda: m.apply(v, x, rngs=rngs, mutable=['intermediates', 'aux']))
        if o[0] != 'ok' or val(o[1]) != y0 or o2[0] != 'ok' or val(o2[1][0]) != y0:
          raise Violation('observation-changed-output', f'op {oi}: sow (present / recorded / removed) changed the primary output')
        res.probe('observe_strip_sow')
      else:
        v2 = {c: v[c] for c in v.keys() if c != 'perturbations'}
        if isinstance(v, FrozenDict):
          v2 = flax.core.freeze(v2)
        o = self.guarded(oi, 'apply(no perturbations)', lambda: m.apply(v2, x, rngs=rngs, mutable=False))
        if o[0] != 'ok' or val(o[1]) != y0:
          raise Violation('observation-changed-output', f'op {oi}: perturb without a perturbation collection changed the primary output')
        res.probe('observe_no_perturb_col')
      self.log.add(oi, 'observe', how)
    else:
      raise kernel.HarnessError('unknown op ' + k)
    if x.tobytes() != x_before:
      raise Violation('inputs-changed', f'op {oi}: the input array was modified')

  def concurrent(self, oi, op, x):
    """Two simulated threads perform independent calls (own module instance, own variables); the seeded scheduler
    switches between them at callback events inside the module bodies.  Each must return what it returns alone."""
    from sim import sched as S

    def job(pi, vj, seed, kind):
      m = self.mods[pi]
      spec = self.progs[pi]['spec']
      xx = P.make_input(self.progs[pi]['batch'], op['fill'])
      rngs = self.rngs(self.specs(pi), seed, True)
      if kind == 'init':
        return lambda: m.init_with_output(rngs, xx)
      if kind == 'construct':
        # merely constructing a module at top level (and initialising it) while another thread is inside a call
        return lambda: P.make(spec, inner=m.inner).init_with_output(rngs, xx)
      j, v = self.pick_vars(pi, vj)
      if v is None:
        return lambda: m.init_with_output(rngs, xx)
      r2 = {kk: vv for kk, vv in rngs.items() if kk != 'params' or 'params' in P.streams_used(spec)}
      if kind == 'apply':
        return lambda: m.apply(v, xx, rngs=r2, mutable=False)
      if kind == 'apply_int':
        return lambda: m.apply(v, xx, rngs=r2, mutable=['intermediates'])
      return lambda: m.apply(v, xx, rngs=r2, mutable=['intermediates'], capture_intermediates=True)

    ja = job(op['prog'], op['vars'], op['seed'], op['kinds'][0])
    jb = job(op['prog2'], op['vars2'], op['seed2'], op['kinds'][1])
    ra = self.guarded(oi, 'call A alone', ja)
    rb = self.guarded(oi, 'call B alone', jb)
    if ra[0] != 'ok' or rb[0] != 'ok':
      return
    sc = S.Sched(rng=stream(op['sched_seed'], 'sched'), step_cap=20000)
    out = {}
    before = self.world_snapshot()
    P.CTL.reset()
    P.CTL.yield_hook = lambda what: sc.yield_('ev')
    try:
      def tb():
        out['b'] = jb()

      t = S.SimThread(sc, target=tb)
      t.start()
      out['a'] = ja()
      t.join()
    except (S.Deadlock, S.StepCap) as e:
      raise Violation('concurrent-calls-interfere', f'op {oi}: {e}')
    finally:
      P.CTL.yield_hook = None
      P.CTL.reset()
      sc.shutdown()
    exc = [t_.get('exc') for t_ in sc.tasks.values() if t_.get('exc') is not None]
    if exc:
      raise Violation('concurrent-calls-interfere', f'op {oi}: call B ({op["kinds"][1]}) raised {type(exc[0]).__name__}: {str(exc[0])[:200]} when interleaved with call A ({op["kinds"][0]}) in another thread; alone it succeeds')
    if val(out['a']) != val(ra[1]) or val(out.get('b')) != val(rb[1]):
      which = 'A' if val(out['a']) != val(ra[1]) else 'B'
      raise Violation('concurrent-calls-interfere', f'op {oi}: call {which} returned something else when interleaved with an independent call in another thread ({op["kinds"]}, {len(sc.trace)} scheduling choices) than when run alone')
    if self.world_snapshot() != before:
      raise Violation('inputs-changed', f'op {oi}: inputs changed by the concurrent calls')
    if any(sc.trace):
      self.res.probe('concurrent_interleaved')
    self.calls += 2
    self.log.add(oi, 'concurrent', op['kinds'], len(sc.trace))

  def check_returned_type(self, oi, v):
    want_frozen = self.plan['knobs']['frozen']
    if isinstance(v, FrozenDict) != want_frozen:
      raise Violation('returned-type-wrong', f'op {oi}: flax_return_frozendict={want_frozen} but got {type(v).__name__}')
    if want_frozen:
      self.res.probe('frozen_returns')

  # -- functional core on a fixed small program written against Scope
  def core_op(self, oi, op, x):
    res = self.res
    res.probe('core_api')

    def f(scope, x):
      P.CTL.event('core-param')
      w = scope.param('w', P.int_init('bias'), (P.D,))
      P.CTL.event('core-var')
      c = scope.variable('stats', 'c', lambda: jnp.zeros((), jnp.float32))
      if scope.is_mutable_collection('stats'):
        P.CTL.event('core-write')
        c.value = c.value + 1.0

      def child(s, x):
        P.CTL.event('core-child')
        b = s.param('b', P.int_init('bias'), (P.D,))
        return x + b

      return scope.child(child, 'kid')(x + w) + c.value

    rngs = {'params': jax.random.key(op['seed'])}
    out = self.guarded(oi, 'core.init', lambda: core.init(f)(rngs, x))
    if out[0] != 'ok':
      raise Violation('unexpected-exception', f'op {oi}: core.init raised {out[1]!r}')
    y, v = out[1]
    self.memo_check(oi, ('core-init', op['seed'], x.shape[0], op['fill']), (val(y), val(v)), 'core.init')
    F = op['mutable']
    fn = lambda: core.apply(f, mutable=real_filter(F))(v, x)
    before_v = snap(v)
    o = self.guarded(oi, 'core.apply', fn)
    if o[0] != 'ok':
      raise Violation('unexpected-exception', f'op {oi}: core.apply(mutable={F!r}) raised {o[1]!r}')
    n_events = P.CTL.count
    if snap(v) != before_v:
      raise Violation('inputs-changed', f'op {oi}: core.apply changed the variables passed in')
    if F is not False:
      y2, mut = o[1]
      want = sorted(c for c in ('params', 'stats') if in_filter(F, c))
      if sorted(mut.keys()) != want:
        raise Violation('returned-collections-wrong', f'op {oi}: core.apply(mutable={F!r}) returned {sorted(mut.keys())}, expected {want}')
      if in_filter(F, 'stats') and float(mut['stats']['c']) != float(v['stats']['c']) + 1:
        raise Violation('mutable-update-lost', f'op {oi}: core.apply did not return the updated counter')
    self.memo_check(oi, ('core-apply', op['seed'], x.shape[0], op['fill'], repr(F)), val(o[1]), 'core.apply')
    if op.get('fault'):
      at = op['fault']['at'] % max(1, n_events)
      o2 = self.guarded(oi, 'core.apply(fault)', fn, fault_at=at)
      if P.CTL.fired:
        res.fault('raise@callback')
        self.after_fault = True
        if o2[0] == 'ok':
          raise Violation('exception-swallowed', f'op {oi}: injected exception did not reach the caller of core.apply')
      o3 = self.guarded(oi, 'core.apply(again)', fn)
      if o3[0] != 'ok' or val(o3[1]) != val(o[1]):
        raise Violation('not-repeatable', f'op {oi}: core.apply after an aborted call differs')
    self.log.add(oi, 'core', repr(F))


def _diff(a, b, path='world'):
  if type(a) is not type(b) or not isinstance(a, tuple):
    return f'{path}: {kernel.canon(a)[:160]} -> {kernel.canon(b)[:160]}' if a != b else ''
  if len(a) != len(b):
    return f'{path}: length {len(a)} -> {len(b)}'
  for i, (x, y) in enumerate(zip(a, b)):
    if x != y:
      return _diff(x, y, f'{path}[{i}]')
  return ''


def execute(plan):
  res = Result()
  log = kernel.Log()
  viol = None
  old = flax.config.flax_return_frozendict
  flax.config.update('flax_return_frozendict', plan['knobs']['frozen'])
  w = None
  oi, op = -1, {}
  try:
    w = LWorld(plan, res, log)
    for oi, op in enumerate(plan['ops']):
      w.step(oi, op)
  except Violation as v:
    viol = dict(kind=v.kind, detail=v.detail)
  except (kernel.HarnessError, RecursionError):
    raise
  except Exception as e:  # noqa: BLE001
    if not kernel.through_sut(e):
      raise
    viol = dict(kind='unexpected-exception', detail=f'op {oi} {op.get("op")}: {type(e).__name__}: {str(e)[:500]}')
  finally:
    flax.config.update('flax_return_frozendict', old)
    P.CTL.reset()
  res.steps = w.events if w else 0
  res.ops = len(plan['ops'])
  res.digest = log.digest()
  res.nontrivial = bool(res.faults) or (w is not None and w.calls >= 3)
  res.violation = viol
  return res
