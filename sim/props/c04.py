"""C04 - NNX transforms keep Python reference semantics: same result and state as eager.

nnxworld: two real heaps are built by the same ops: A (the caller's objects, run under the transform) and B
(structural twin, run eagerly: real flax code with the transform taken out).  *Mutation programs* - short
instruction lists of reads, Variable updates and structural edits over 1-3 argument graphs that may alias
each other - are run under T in {jit, remat, cond, switch, while_loop, fori_loop, cached_partial(jit)} on A and
eagerly on B.  The same transformed function object is called again and again while heap edits change the
arguments' structure in between (cache hit, miss, hit again), and some calls raise at instruction i inside the trace.
"""
from __future__ import annotations

import copy
import gc

from sim import kernel, nnxworld as W
from sim.kernel import Result, Violation, stream

PROP = 'C04'
TIERS = {
  'quick': dict(runs=2600, deadline=55, workers=16),
  'thorough': dict(runs=80000, deadline=820, workers=16),
}
SELFTEST_RUNS = 120
RULE = (
  'each run = one history: 3..9 heap-building ops (nodes, Variables, references to existing objects -> sharing / cycles / '
  'aliasing across arguments), 1-2 function definitions (transform T, arity 1-3, a generated mutation program: read a Variable '
  'into the result, v.value = f(v.value, x), set / delete a static attribute, attach a new Variable or sub-node, alias one '
  'argument into another; loops and branches get Variable-update-only programs), then 3..9 ops: call a defined function on '
  'chosen (possibly aliasing) arguments, edit the heap between calls (static attribute, new Variable, value change), call with '
  'an exception raised at instruction i inside the trace, gc. After every call the return value (bytes), the canonical form of '
  'every heap root and the identity skeleton (which pre-existing caller objects sit where) are compared between the transformed '
  'heap and the eager twin. Non-trivial = >= 2 transformed calls compared; distinct = distinct event-log digest.'
)
STEP_UNIT = 'program instructions executed (both heaps)'
COMPONENTS = {'real': ['flax/nnx/transforms/compilation.py (jit)', 'flax/nnx/transforms/autodiff.py (remat)', 'flax/nnx/transforms/transforms.py (cond, switch)', 'flax/nnx/transforms/iteration.py (while_loop, fori_loop)', 'flax/nnx/graph.py (update_context, split/merge contexts, cached_partial, StaticCache)', 'flax/nnx/extract.py'], 'stub': []}
ASSUMPTIONS = [
  'the eager run of the same program on a structural twin is the reference (real flax code without the transform)',
  'nothing is asserted about the partial effects of a call that raised (they legitimately differ between eager and traced execution); the twin is re-synchronised from the caller\'s objects afterwards and the NEXT call must conform',
  'pmap, shard_map, custom_vjp are not covered (broken on this jax even with the shim)',
]
PROBES = ['T_cached_partial2', 'T_jit', 'T_remat', 'T_cond', 'T_switch', 'T_while_loop', 'T_fori_loop', 'T_cached_partial', 'T_jit_cond', 'T_jit_fori', 'cache_hit_same_structure', 'structure_changed_between_calls', 'aliased_arguments', 'structural_edit_in_trace', 'new_object_created_in_trace', 'fault_in_trace', 'call_after_fault', 'cached_partial_rejects_structure_change', 'object_returned', 'detached_object_returned', 'returned_object_metadata_edit', 'returned_object_reattached']

CROSS_RUN_STATE = True


class P_EarlyFailure(Exception):
  pass


class ProgFault(Exception):
  pass


def setup_worker(w, tier):
  W.setup()
  global np, jax, jnp, nnx
  np, jax, jnp, nnx = W.np, W.jax, W.jnp, W.nnx


# --------------------------------------------------------------------------
# generation

NAMES = ['t0', 't1', 'extra', 'made']


def gen_program(g, arity, structural, allow_ret=False):
  prog = []
  nmul = 0
  for _ in range(g.randrange(1, 6)):
    r = g.random()
    a = g.randrange(arity)
    if r < 0.3:
      prog.append(['addvar', a, g.randrange(8), g.randrange(1, 4)])
    elif r < 0.4 and nmul < 2:
      nmul += 1
      prog.append(['mulvar', a, g.randrange(8)])
    elif r < 0.55:
      prog.append(['read', a, g.randrange(8)])
    elif r < 0.65:
      prog.append(['xadd', a, g.randrange(8)])
    elif structural and r < 0.75:
      prog.append(['setstatic', a, g.choice(NAMES), g.choice([1, 2, 'a', -1, -2])])
    elif structural and r < 0.8:
      prog.append(['delstatic', a, g.choice(NAMES)])
    elif structural and r < 0.88:
      prog.append(['newvar', a, g.choice(NAMES), g.randrange(1, 5)])
    elif structural and r < 0.94:
      prog.append(['newnode', a, g.choice(NAMES), g.randrange(1, 5)])
    elif structural and arity > 1:
      prog.append(['alias', a, g.randrange(arity), g.choice(NAMES)])
    else:
      prog.append(['read', a, g.randrange(8)])
  if structural and allow_ret and g.random() < 0.4:
    # the function hands an object back: a brand-new one, a new wrapper around one of the caller's objects that stays
    # attached, or around one it has just detached from the argument
    prog.append([g.choice(['ret_new', 'ret_wrap', 'ret_detach', 'ret_detach']), g.randrange(arity), g.randrange(8), g.randrange(1, 5)])
  return prog


def generate(rs, tier):
  g = stream(rs, 'gen')
  build = W.gen_build_ops(g, g.randrange(3, 9))
  build.append(dict(op='var', obj=0, name='w', vtype='Param', shape=[2], fill=g.randrange(1, 5), meta={}))
  fns = []
  for _ in range(g.choice([1, 1, 2])):
    T = g.choice(['jit', 'jit', 'remat', 'cond', 'switch', 'while_loop', 'fori_loop', 'cached_partial', 'cached_partial2', 'jit_cond', 'jit_fori'])
    structural = T in ('jit', 'remat', 'cached_partial', 'cached_partial2')
    arity = 1 if T in ('while_loop', 'fori_loop', 'cached_partial', 'jit_cond', 'jit_fori') else (2 if T == 'cached_partial2' else g.choice([1, 2, 2, 3]))
    nprog = {'cond': 2, 'switch': 3, 'jit_cond': 2}.get(T, 1)
    fns.append(dict(T=T, arity=arity, progs=[gen_program(g, arity, structural and g.random() < 0.7, allow_ret=T == 'jit') for _ in range(nprog)]))
  ops = []
  flip = False
  for _ in range(g.randrange(3, 10)):
    r = g.random()
    if r < 0.62:
      ops.append(dict(op='call', fn=g.randrange(len(fns)), args=[g.randrange(64) for _ in range(3)], x=g.randrange(1, 4), sel=g.randrange(3), trips=g.randrange(0, 4)))
      if g.random() < 0.3:
        ops.append(dict(ops[-1]))  # identical repetition: trace-cache hit
    elif r < 0.72:
      ops.append(dict(op='call', fn=g.randrange(len(fns)), args=[g.randrange(64) for _ in range(3)], x=g.randrange(1, 4), sel=g.randrange(3), trips=g.randrange(1, 4), fault=g.randrange(16)))
    elif r < 0.80:
      # re-bind one static attribute between calls, alternating between two values whose hashes collide in CPython
      flip = not flip
      ops.append(dict(op='edit', edit=dict(op='static', obj=g.randrange(2), name='axisflip', value=-1 if flip else -2)))
    elif r < 0.92:
      e = W.gen_build_ops(g, 1)[1:]
      ops.extend(dict(op='edit', edit=x) for x in e)
    elif r < 0.96:
      # the caller works with an object a function handed back earlier: tags one of its Variables, or attaches what is
      # inside to one of its graphs again
      ops.append(dict(op='returned', how=g.choice(['meta', 'meta', 'reattach']), which=g.randrange(4), node=g.randrange(64), key=g.choice(['tag', 'note']), value=g.choice(['x', 'y', 3])))
    else:
      ops.append(dict(op='gc'))
  if g.random() < 0.15:
    # a cached_partial call that fails before any NNX transform picks the cached graph up (the wrapped function is no
    # transform / raises first): the calls that follow in the history must not notice
    ops.insert(g.randrange(len(ops) + 1), dict(op='cp_fails_early', node=g.randrange(64), how=g.choice(['not_a_transform', 'raises_first'])))
  if g.random() < 0.2:
    # some Variables carry a user set-hook: program assignments go through it on both sides; the write-back of a
    # transform is not a user assignment
    for _ in range(g.choice([1, 2])):
      build.append(dict(op='setmeta', var=g.randrange(64), key='on_set_value', value='@SETHOOK'))
  has_cp = any(f['T'].startswith('cached_partial') for f in fns)
  if has_cp and g.random() < 0.85:
    # cached_partial does not support raw array attributes (known finding cached-partial-array-attribute)
    build = [b for b in build if b['op'] != 'array']
    ops = [o for o in ops if not (o['op'] == 'edit' and o['edit']['op'] == 'array')]
  return dict(engine='nnxworld', knobs=dict(build=build, fns=fns), ops=ops)


SHRINK_LISTS = ['ops']


def signature(plan, v):
  k = plan['knobs']
  has_cp = any(f['T'].startswith('cached_partial') for f in k['fns'])
  has_arr = any(b['op'] == 'array' for b in k['build']) or any(o['op'] == 'edit' and o['edit']['op'] == 'array' for o in plan['ops'])
  return dict(cached_partial_with_array_attr=bool(has_cp and has_arr))


# --------------------------------------------------------------------------
# program interpreter: identical code runs eagerly and inside the transform


def variables_of(node):
  """Variables reachable from a node in deterministic (sorted-key DFS, first visit) order."""
  out = []
  seen = set()

  def go(x):
    if isinstance(x, nnx.Variable):
      if id(x) not in seen:
        seen.add(id(x))
        out.append(x)
      return
    if isinstance(x, nnx.Object):
      if id(x) in seen:
        return
      seen.add(id(x))
      for k, v in sorted(vars(x).items()):
        if k != '_object__state':
          go(v)
    elif isinstance(x, dict):
      for k in sorted(x):
        go(x[k])
    elif isinstance(x, (list, tuple)):
      for v in x:
        go(v)

  go(node)
  return out


class Counter:
  def __init__(self):
    self.n = 0
    self.fail_at = None
    self.fired = False
    self.created = 0
    self.structural = 0
    self.detached = 0

  def tick(self):
    i = self.n
    self.n += 1
    if self.fail_at is not None and i == self.fail_at:
      self.fired = True
      raise ProgFault(f'injected at instruction {i}')


CNT = Counter()


def returns_object(prog):
  return any(ins[0].startswith('ret_') for ins in prog)


def interpret(prog, nodes, x, value_only=False):
  acc = jnp.zeros((), jnp.float32)
  ret = None
  for ins in prog:
    CNT.tick()
    k = ins[0]
    node = nodes[ins[1] % len(nodes)]
    if k.startswith('ret_'):
      box = W.NODE_TYPES['Node']()
      box.note = nnx.Variable(jnp.full((), float(ins[3]), jnp.float32))
      if k == 'ret_new':
        box.inner = nnx.Param(jnp.full((2,), float(ins[3]), jnp.float32))
        CNT.created += 1
      else:
        cands = [a for a, v in sorted(vars(node).items()) if a != '_object__state' and isinstance(v, (nnx.Object, nnx.Variable))]
        if cands:
          name = cands[ins[2] % len(cands)]
          box.inner = getattr(node, name)
          if k == 'ret_detach':
            delattr(node, name)
            CNT.structural += 1
            CNT.detached += 1
      ret = box
      continue
    if k in ('addvar', 'mulvar', 'read', 'xadd'):
      vs = [v for v in variables_of(node) if np.ndim(v.value) <= 2 and jnp.issubdtype(jnp.asarray(v.value).dtype, jnp.floating)]
      if not vs:
        continue
      v = vs[ins[2] % len(vs)]
      if k == 'addvar':
        v.value = v.value + float(ins[3])
      elif k == 'mulvar':
        # doubling wraps around at 4096: values stay integers that float32 sums represent exactly in any order
        # (a thorough soak reached 1.3e8 after 24 doublings and reported a rounding difference as a violation)
        v.value = jnp.mod(v.value * 2.0, 4096.0)
      elif k == 'xadd':
        v.value = v.value + jnp.sum(x)
      else:
        acc = acc + jnp.sum(v.value)
    elif value_only:
      continue
    elif k == 'setstatic':
      cur = vars(node).get(ins[2])
      if cur is None or isinstance(cur, (int, str)):
        setattr(node, ins[2], ins[3])
        CNT.structural += 1
    elif k == 'delstatic':
      cur = vars(node).get(ins[2])
      if isinstance(cur, (int, str)):
        delattr(node, ins[2])
        CNT.structural += 1
    elif k == 'newvar':
      if ins[2] not in vars(node):
        setattr(node, ins[2], nnx.Param(jnp.full((2,), float(ins[3]), jnp.float32)))
        CNT.created += 1
    elif k == 'newnode':
      if ins[2] not in vars(node):
        n = W.NODE_TYPES['Node']()
        n.inner_w = nnx.Param(jnp.full((), float(ins[3]), jnp.float32))
        setattr(node, ins[2], n)
        CNT.created += 1
    elif k == 'alias':
      other = nodes[ins[2] % len(nodes)]
      if ins[3] not in vars(node):
        setattr(node, ins[3], other)
        CNT.structural += 1
  if returns_object(prog):
    return acc, ret
  return acc


def build_fn(fd, heap_kind):
  """Returns call(nodes, x, sel, trips) for the transformed heap ('T') or the eager twin ('E')."""
  T = fd['T']
  progs = fd['progs']
  if heap_kind == 'E':
    def eager(nodes, x, sel, trips):
      if T in ('jit', 'remat', 'cached_partial'):
        return interpret(progs[0], nodes, x)
      if T == 'cached_partial2':
        return interpret(progs[0], [nodes[0], nodes[1], nodes[0]], x)
      if T == 'cond':
        return interpret(progs[0] if sel % 2 == 0 else progs[1], nodes, x, value_only=True)
      if T == 'jit_cond':
        # predicate computed from the data, inside the jitted function
        return interpret(progs[0] if float(np.sum(x)) > 3.0 else progs[1], nodes, x, value_only=True)
      if T == 'jit_fori':
        acc = jnp.zeros((), jnp.float32)
        for i in range(2):
          acc = acc + interpret(progs[0], nodes, x, value_only=True)
        return acc
      if T == 'switch':
        return interpret(progs[sel % 3], nodes, x, value_only=True)
      acc = jnp.zeros((), jnp.float32)
      for i in range(trips):
        acc = acc + interpret(progs[0], nodes, x, value_only=True)
      return acc

    return eager
  if T in ('jit', 'remat'):
    wrap = nnx.jit if T == 'jit' else nnx.remat
    arity = fd['arity']
    if arity == 1:
      f = wrap(lambda a, x: interpret(progs[0], [a], x))
    elif arity == 2:
      f = wrap(lambda a, b, x: interpret(progs[0], [a, b], x))
    else:
      f = wrap(lambda a, b, c, x: interpret(progs[0], [a, b, c], x))
    return lambda nodes, x, sel, trips: f(*nodes, x)
  if T == 'jit_cond':
    ft = lambda a, x: interpret(progs[0], [a], x, value_only=True)
    ff = lambda a, x: interpret(progs[1], [a], x, value_only=True)
    f = nnx.jit(lambda a, x: nnx.cond(jnp.sum(x) > 3.0, ft, ff, a, x))
    return lambda nodes, x, sel, trips: f(nodes[0], x)
  if T == 'jit_fori':
    def body(i, c):
      m, acc = c
      return m, acc + interpret(progs[0], [m], x_holder[0], value_only=True)

    x_holder = [None]

    def inner(a, x):
      x_holder[0] = x
      m, acc = nnx.fori_loop(0, 2, body, (a, jnp.zeros((), jnp.float32)))
      return acc

    f = nnx.jit(inner)
    return lambda nodes, x, sel, trips: f(nodes[0], x)
  if T == 'cached_partial':
    jf = nnx.jit(lambda a, x: interpret(progs[0], [a], x))
    cache = {}

    def cp(nodes, x, sel, trips):
      # cached_partial works on a clone of the node's structure taken when it is created (documented): a user
      # re-creates it after changing the node's structure from outside, and so does the harness
      key = (id(nodes[0]), shape_key(nodes[0]), tuple(sorted(W.real_objects(nodes[0]))))  # structure AND object identities
      if key not in cache:
        cache[key] = (nnx.cached_partial(jf, nodes[0]), nodes[0])
      return cache[key][0](x)

    return cp
  if T == 'cached_partial2':
    # the documented two-object form (model, optimizer): both graphs cached, and the caller's first object handed in
    # once more as an ordinary argument (it aliases the cached graph)
    jf2 = nnx.jit(lambda a, b, alias, x: interpret(progs[0], [a, b, alias], x))
    cache2 = {}

    def cp2(nodes, x, sel, trips):
      a, b = nodes[0], nodes[1]
      oa, ob = W.real_objects(a), W.real_objects(b)
      if a is b or set(oa) & set(ob) or isinstance(a, nnx.Variable) or isinstance(b, nnx.Variable):
        return jf2(a, b, a, x)  # overlapping graphs are not what cached_partial is documented for: plain jit
      key = (id(a), id(b), shape_key(a), shape_key(b), tuple(sorted(oa)), tuple(sorted(ob)))
      if key not in cache2:
        cache2[key] = (nnx.cached_partial(jf2, a, b), a, b)
        CNT.cp2 = getattr(CNT, 'cp2', 0) + 1
      return cache2[key][0](a, x)

    return cp2
  if T == 'cond':
    arity = fd['arity']

    def mk(p):
      if arity == 1:
        return lambda a, x: interpret(p, [a], x, value_only=True)
      if arity == 2:
        return lambda a, b, x: interpret(p, [a, b], x, value_only=True)
      return lambda a, b, c, x: interpret(p, [a, b, c], x, value_only=True)

    ft, ff = mk(progs[0]), mk(progs[1])
    return lambda nodes, x, sel, trips: nnx.cond(sel % 2 == 0, ft, ff, *nodes, x)
  if T == 'switch':
    arity = fd['arity']

    def mk(p):
      if arity == 1:
        return lambda a, x: interpret(p, [a], x, value_only=True)
      if arity == 2:
        return lambda a, b, x: interpret(p, [a, b], x, value_only=True)
      return lambda a, b, c, x: interpret(p, [a, b, c], x, value_only=True)

    bs = [mk(p) for p in progs]
    return lambda nodes, x, sel, trips: nnx.switch(sel % 3, bs, *nodes, x)
  if T == 'while_loop':
    def wl(nodes, x, sel, trips):
      def cond_fun(c):
        m, i, acc = c
        return i < trips

      def body(c):
        m, i, acc = c
        return m, i + 1, acc + interpret(progs[0], [m], x, value_only=True)

      m, i, acc = nnx.while_loop(cond_fun, body, (nodes[0], jnp.zeros((), jnp.int32), jnp.zeros((), jnp.float32)))
      return acc

    return wl
  if T == 'fori_loop':
    def fl(nodes, x, sel, trips):
      def body(i, c):
        m, acc = c
        return m, acc + interpret(progs[0], [m], x, value_only=True)

      m, acc = nnx.fori_loop(0, trips, body, (nodes[0], jnp.zeros((), jnp.float32)))
      return acc

    return fl
  raise ValueError(T)


def shape_key(node):
  """Structure of a graph without Variable values (harness-side)."""

  def strip(c):
    if isinstance(c, tuple):
      if c and c[0] == 'var':
        return ('var', c[1], c[2], c[3][:2], c[4])
      if c and c[0] == 'array':
        return c[:3]
      return tuple(strip(x) for x in c)
    if isinstance(c, list):
      return [strip(x) for x in c]
    return c

  return kernel.digest(strip(W.canon_real(node)))


def twin_copy(real):
  """Harness-side structural copy of a whole heap {id: object}: same sharing, fresh objects.
  (copy.deepcopy is not usable: Variable.__getattr__ forwards __deepcopy__ to the wrapped array.)"""
  from flax.nnx.object import ObjectState

  memo = {}

  def cp(x):
    if id(x) in memo:
      return memo[id(x)]
    if isinstance(x, nnx.Variable):
      y = type(x).from_metadata(x.raw_value, dict(x.get_metadata()))
      memo[id(x)] = y
      return y
    if isinstance(x, nnx.Object):
      y = object.__new__(type(x))
      memo[id(x)] = y
      vars(y)['_object__state'] = ObjectState()
      for k, v in vars(x).items():
        if k != '_object__state':
          vars(y)[k] = cp(v)
      return y
    if isinstance(x, dict):
      y = {}
      memo[id(x)] = y
      for k, v in x.items():
        y[k] = cp(v)
      return y
    if isinstance(x, list):
      y = []
      memo[id(x)] = y
      y.extend(cp(v) for v in x)
      return y
    if isinstance(x, tuple):
      return tuple(cp(v) for v in x)
    return x

  return {i: cp(o) for i, o in real.items()}


def skeleton(heap):
  """path -> object id for every graph node / Variable reachable from every root, first-visit paths."""
  out = {}
  for ri, nid in enumerate(heap.nodes):
    seen = set()

    def go(x, path):
      if isinstance(x, (nnx.Variable, nnx.Object)):
        out[(ri,) + path] = id(x)
        if id(x) in seen or isinstance(x, nnx.Variable):
          return
        seen.add(id(x))
        for k, v in sorted(vars(x).items()):
          if k != '_object__state':
            go(v, path + (k,))
      elif isinstance(x, dict):
        for k in sorted(x):
          go(x[k], path + (k,))
      elif isinstance(x, (list, tuple)):
        for i, v in enumerate(x):
          go(v, path + (i,))

    go(heap.real[nid], ())
  return out


def reachable(root):
  """[(path, object)] for every graph node / Variable reachable from root, first visit, deterministic order."""
  out = []
  seen = set()

  def go(x, path):
    if isinstance(x, (nnx.Variable, nnx.Object)):
      if id(x) in seen:
        return
      seen.add(id(x))
      out.append((path, x))
      if isinstance(x, nnx.Object):
        for k, v in sorted(vars(x).items()):
          if k != '_object__state':
            go(v, path + (k,))
    elif isinstance(x, dict):
      for k in sorted(x):
        go(x[k], path + (k,))
    elif isinstance(x, (list, tuple)):
      for i, v in enumerate(x):
        go(v, path + (i,))

  go(root, ())
  return out


def val(a):
  a = np.asarray(a)
  if a.dtype.kind == 'f':
    a = a + a.dtype.type(0)
  return (str(a.dtype), a.shape, a.tobytes())


class TwinHeaps:
  def __init__(self, plan, res, log):
    self.plan, self.res, self.log = plan, res, log
    self.A, self.B = W.Heap(), W.Heap()
    for op in plan['knobs']['build']:
      W.apply_build_op(self.A, op, res)
      W.apply_build_op(self.B, op, None)
    self.fnsT = [build_fn(fd, 'T') for fd in plan['knobs']['fns']]
    self.fnsE = [build_fn(fd, 'E') for fd in plan['knobs']['fns']]
    self.calls = 0
    self.instr = 0
    self.last_struct = {}
    self.after_fault = False
    self.returned = []

  def compare(self, where):
    for na, nb in zip(self.A.nodes, self.B.nodes):
      ca, cb = W.canon_real(self.A.real[na]), W.canon_real(self.B.real[nb])
      if ca != cb:
        raise Violation('state-differs-from-eager', f'{where}: object graph after the transformed call {W._short(ca)} differs from the eager run {W._short(cb)}')

  def check_no_tracers(self, where):
    """Whatever a failed transformed call leaves behind, it must be ordinary values: a tracer left in one of the
    caller's Variables / array attributes poisons every later use of the object."""
    for nid in self.A.nodes:
      for path, x in reachable(self.A.real[nid]):
        vals = []
        if isinstance(x, nnx.Variable):
          vals.append(x.raw_value)
        elif isinstance(x, nnx.Object):
          vals.extend(v for kk, v in vars(x).items() if kk != '_object__state' and hasattr(v, 'dtype'))
        for v in vals:
          if isinstance(v, jax.core.Tracer):
            raise Violation('tracer-leaked', f'{where}: after the failed call the caller\'s object at {path} holds a tracer ({type(v).__name__})')

  def resync(self):
    """B := structural copy of A (harness-side deepcopy, sharing across roots preserved)."""
    self.B.real = twin_copy(self.A.real)  # one memo: sharing between roots, Variables and containers preserved
    self.returned = []  # the eager twins of the objects handed back earlier point into the heap that was just replaced

  def step(self, oi, op):
    res = self.res
    k = op['op']
    if k == 'gc':
      gc.collect()
      res.fault('gc')
      return
    if k == 'returned':
      self.returned_op(oi, op)
      return
    if k == 'cp_fails_early':
      node = self.A.real[self.A.nodes[op['node'] % len(self.A.nodes)]]
      if isinstance(node, nnx.Variable) or not nnx.graph.is_graph_node(node):
        return

      def plain(m, x):
        return x

      def raises_first(m, x):
        raise P_EarlyFailure('raised before any transform ran')

      try:
        nnx.cached_partial(plain if op['how'] == 'not_a_transform' else raises_first, node)(np.float32(1.0))
        outcome = 'ok'
      except BaseException as e:  # noqa: BLE001
        outcome = type(e).__name__
      res.fault('cached_partial_fails_early')
      # nothing is asserted about the failing call itself; the transformed calls that follow run against the eager twin
      # as always (a context slot left set would make the next one fail or run on the wrong graph)
      v = nnx.Variable(jnp.asarray(1.0, jnp.float32))

      def bump(v):
        v.value = v.value + 1.0

      try:
        nnx.jit(bump)(v)
      except Exception as e:  # noqa: BLE001
        raise Violation('failed-call-poisons-next', f'op {oi}: after a cached_partial call that failed early ({op["how"]}: {outcome}) an unrelated nnx.jit call raised {type(e).__name__}: {str(e)[:200]}')
      if float(v.value) != 2.0:
        raise Violation('failed-call-poisons-next', f'op {oi}: after a cached_partial call that failed early an unrelated nnx.jit call left its Variable at {float(v.value)} instead of 2.0')
      self.compare(f'op {oi} cp_fails_early')
      self.log.add(oi, 'cp_fails_early', op['how'], outcome)
      return
    if k == 'edit':
      e = op['edit']
      # heap edits between calls are applied to the real objects of both heaps (the mirror model is not used here)
      for h in (self.A, self.B):
        try:
          W.apply_build_op(h, e, None)
        except Exception:  # noqa: BLE001  (the edit referenced something a program deleted: skip on both)
          pass
      self.compare(f'op {oi} edit')
      self.log.add(oi, 'edit', e['op'])
      return
    fd = self.plan['knobs']['fns'][op['fn'] % len(self.fnsT)]
    T = fd['T']
    fi = op['fn'] % len(self.fnsT)
    idx = [a % len(self.A.nodes) for a in op['args'][: fd['arity']]]
    nodesA = [self.A.real[self.A.nodes[i]] for i in idx]
    nodesB = [self.B.real[self.B.nodes[i]] for i in idx]
    if len(set(idx)) < len(idx) or self._share(nodesA):
      res.probe('aliased_arguments')
    x = np.full((2,), float(op['x']), np.float32)
    where = f'op {oi} {T}(args={idx}, sel={op["sel"]}, trips={op["trips"]})'
    res.probe('T_' + T)
    struct_key = kernel.digest([W.canon_real(n)[0:1] + (repr(nnx.graphdef(n)),) for n in nodesA])
    if self.last_struct.get(fi) == struct_key:
      res.probe('cache_hit_same_structure')
    elif fi in self.last_struct:
      res.probe('structure_changed_between_calls')
    self.last_struct[fi] = struct_key
    # --- eager reference on the twin
    skB0 = skeleton(self.B)
    CNT.__init__()
    yE = self.fnsE[fi](nodesB, x, op['sel'], op['trips'])
    boxE = None
    if isinstance(yE, tuple):
      yE, boxE = yE
    nE = CNT.n
    detached = CNT.detached
    created, structural = CNT.created, CNT.structural
    skB1 = skeleton(self.B)
    if op.get('fault') is not None:
      # the faulted call: nothing is asserted about partial effects; afterwards the next call must conform
      skA0 = skeleton(self.A)
      CNT.__init__()
      CNT.fail_at = op['fault'] % max(1, nE)
      try:
        self.fnsT[fi](nodesA, x, op['sel'], op['trips'])
        raised = False
      except ProgFault:
        raised = True
      fired = CNT.fired
      CNT.__init__()
      if fired:
        res.fault('raise@instruction')
        res.probe('fault_in_trace')
        if not raised:
          raise Violation('exception-swallowed', f'{where}: exception injected inside the trace did not reach the caller')
        self.after_fault = True
        self.check_no_tracers(where)
        self.resync()
        self.log.add(oi, 'call', T, 'fault')
        return
      # not fired (e.g. trips = 0): fall through to the normal comparison below with a fresh run on A's twin state
      self.resync()
      self.log.add(oi, 'call', T, 'fault-not-fired')
      return
    # --- transformed call on the caller's objects
    skA0 = skeleton(self.A)
    CNT.__init__()
    try:
      yT = self.fnsT[fi](nodesA, x, op['sel'], op['trips'])
    except ProgFault:
      raise
    except Exception as e:  # noqa: BLE001
      if T.startswith('cached_partial') and (structural or created or self.last_struct.get(('cp', fi)) not in (None, struct_key)):
        # structure changes must be rejected by cached_partial: acceptable outcome, resync and go on
        res.probe('cached_partial_rejects_structure_change')
        self.resync_from_B_failed()
        self.log.add(oi, 'call', T, 'rejected')
        return
      raise Violation('transform-raises', f'{where}: eager run succeeds but the transformed call raised {type(e).__name__}: {str(e)[:300]}')
    if T.startswith('cached_partial'):
      self.last_struct.setdefault(('cp', fi), struct_key)
    boxT = None
    if isinstance(yT, tuple):
      yT, boxT = yT
    self.instr += nE + CNT.n
    if created:
      res.probe('new_object_created_in_trace')
    if structural:
      res.probe('structural_edit_in_trace')
    if self.after_fault:
      res.probe('call_after_fault')
      self.after_fault = False
    if val(yT) != val(yE):
      raise Violation('result-differs-from-eager', f'{where}: transformed call returned {np.asarray(yT).tolist()}, eager run {np.asarray(yE).tolist()}')
    self.compare(where)
    # identity: the caller's pre-existing objects carry the changes, exactly where the eager run leaves them
    skA1 = skeleton(self.A)
    invA0 = {}
    for p, i in skA0.items():
      invA0.setdefault(i, p)
    invB0 = {}
    for p, i in skB0.items():
      invB0.setdefault(i, p)
    for p, ib in skB1.items():
      ia = skA1.get(p)
      if ia is None:
        raise Violation('state-differs-from-eager', f'{where}: path {p} exists after the eager run but not after the transformed call')
      if invB0.get(ib) != invA0.get(ia):
        raise Violation('identity-differs-from-eager', f'{where}: object at path {p} is ' + ('a copy instead of the caller\'s original object' if invB0.get(ib) is not None else 'an old object where the eager run creates a new one') + f' (eager: was at {invB0.get(ib)}, transformed: was at {invA0.get(ia)})')
    if (boxT is None) != (boxE is None):
      raise Violation('result-differs-from-eager', f'{where}: the eager run returns {"an object" if boxE is not None else "no object"}, the transformed call {"an object" if boxT is not None else "none"}')
    if boxE is not None:
      # the object handed back: same shape and values as the eager one, and what sits inside is the caller's own
      # object exactly where the eager run hands back the caller's own object
      ca, cb = W.canon_real(boxT), W.canon_real(boxE)
      if ca != cb:
        raise Violation('result-differs-from-eager', f'{where}: returned object {W._short(ca)} differs from the eager run {W._short(cb)}')
      oa, ob = reachable(boxT), reachable(boxE)
      for (pa, xa), (pb, xb) in zip(oa, ob):
        if invB0.get(id(xb)) != invA0.get(id(xa)):
          raise Violation('identity-differs-from-eager', f'{where}: returned object, path {pa}: ' + ('a copy instead of the caller\'s original object' if invB0.get(id(xb)) is not None else 'one of the caller\'s objects where the eager run returns a new one') + f' (eager: was at {invB0.get(id(xb))}, transformed: was at {invA0.get(id(xa))})')
      self.returned.append((boxT, boxE))
      res.probe('object_returned')
      if detached:
        res.probe('detached_object_returned')
    self.compare_returned(where)
    self.calls += 1
    self.log.add(oi, 'call', T, kernel.digest(val(yE)))

  def compare_returned(self, where):
    for i, (a, b) in enumerate(self.returned):
      ca, cb = W.canon_real(a), W.canon_real(b)
      if ca != cb:
        raise Violation('state-differs-from-eager', f'{where}: the object returned by an earlier call (#{i}) now reads {W._short(ca)}, after the same history on the eager side {W._short(cb)}')

  def returned_op(self, oi, op):
    if not self.returned:
      return
    a, b = self.returned[-1 - op['which'] % len(self.returned)]
    if op['how'] == 'meta':
      for box in (a, b):
        vs = [x for _, x in reachable(box) if isinstance(x, nnx.Variable)]
        setattr(vs[0], op['key'], op['value'])
      self.res.probe('returned_object_metadata_edit')
    else:
      i = op['node'] % len(self.A.nodes)
      for h, box in ((self.A, a), (self.B, b)):
        node = h.real[h.nodes[i]]
        if 'inner' in vars(box) and 'back' not in vars(node):
          node.back = box.inner
      self.res.probe('returned_object_reattached')
    self.compare(f'op {oi} returned/{op["how"]}')
    self.compare_returned(f'op {oi} returned/{op["how"]}')
    self.log.add(oi, 'returned', op['how'])

  def resync_from_B_failed(self):
    # the transformed call was (legitimately) rejected: the eager twin already ran the program; bring A to B's state
    self.A.real = twin_copy(self.B.real)
    self.returned = []
    self.fnsT = [build_fn(fd, 'T') for fd in self.plan['knobs']['fns']]
    self.last_struct = {}

  def _share(self, nodes):
    seen = {}
    for i, n in enumerate(nodes):
      for o in W.real_objects(n):
        if o in seen and seen[o] != i:
          return True
        seen.setdefault(o, i)
    return False


def execute(plan):
  res = Result()
  log = kernel.Log()
  viol = None
  w = None
  oi, op = -1, {}
  try:
    w = TwinHeaps(plan, res, log)
    for oi, op in enumerate(plan['ops']):
      w.step(oi, op)
  except Violation as v:
    viol = dict(kind=v.kind, detail=v.detail)
  except (kernel.HarnessError, RecursionError):
    raise
  except Exception as e:  # noqa: BLE001
    if not kernel.through_sut(e):
      raise
    viol = dict(kind='unexpected-exception', detail=f'op {oi} {op.get("op")}: {type(e).__name__}: {str(e)[:500]}')
  finally:
    CNT.__init__()
  res.steps = w.instr if w else 0
  res.ops = len(plan['ops'])
  res.digest = log.digest()
  res.nontrivial = bool(w and w.calls >= 2)
  res.violation = viol
  return res
