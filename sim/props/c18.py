"""C18 - Linen<->NNX bridge wrappers behave like the module they wrap.

ToNNX: generated Linen programs (counters, running statistics, RNG use, partitioned params) wrapped by
nnx.bridge.ToNNX, optionally nested in an NNX parent; call sequences with changing `mutable`, state
extraction and re-insertion, and exceptions injected inside the wrapped module.  Reference after every call:
the wrapped Linen module itself, applied to the variables the harness extracts from the wrapper.
ToLinen: small NNX classes (Param, BatchStat counter, RNG use, sharding metadata; in a fraction of the runs also
Variables whose type is a SUBCLASS of another Variable type of the same module: nnx.LoRAParam / a user subclass next to
nnx.Param, a user subclass next to nnx.BatchStat, nnx.Perturbation next to nnx.Intermediate) wrapped by
nnx.bridge.to_linen, optionally nested in a Linen parent; reference: nnx.merge(graphdef, state)(x) and the NNX class
built by hand on the same state; every returned collection must hold exactly the Variables of its own type.
"""
from __future__ import annotations

from sim import kernel, programs as P
from sim.kernel import Result, Violation, stream

PROP = 'C18'
TIERS = {
  'quick': dict(runs=5000, deadline=50, workers=16),
  'thorough': dict(runs=150000, deadline=800, workers=16),
}
SELFTEST_RUNS = 160
RULE = (
  'ToNNX runs: a generated Linen program (params incl. partitioned ones, counters / running statistics in stats, batch_stats, '
  'cache, dropout-style RNG draws, nested submodules) wrapped by ToNNX with its own Rngs, optionally inside an NNX parent; '
  'lazy_init, then 2..8 ops: call with a generated mutable list (training / eval alternation), split+merge round trip of the '
  'wrapper, call with an exception injected at a callback event of the wrapped module. After every call the output and the '
  'wrapper state are compared bytewise with linen_module.apply(variables extracted from the wrapper, x, rngs = the keys the '
  'wrapper drew, mutable=...), and every collection must sit under its matching Variable type with names and sharding metadata '
  'intact. ToLinen runs: an NNX class wrapped by to_linen (optionally inside a Linen parent): init, apply sequences with mutable '
  'batch_stats, compared with nnx.merge(graphdef, state)(x) on the state the harness builds from the Linen variables. '
  'In a fraction of the ToLinen runs the NNX class also holds subclass-typed Variables (nnx.LoRAParam and a user subclass of '
  'nnx.Param next to nnx.Param, a user subclass of nnx.BatchStat next to nnx.BatchStat, nnx.Perturbation next to an '
  'nnx.Intermediate), all used in the output; apply gets generated mutable lists over those collections and history steps edit '
  'single Linen variables (the subclass-typed ones included). After init and after every apply with mutable collections each '
  'returned collection must hold exactly the Variables of that exact type (none twice), with the values the hand-built NNX '
  'module leaves. '
  'Non-trivial = >= 2 calls compared; distinct = distinct event-log digest.'
)
STEP_UNIT = 'wrapper calls compared with the wrapped module'
COMPONENTS = {'real': ['flax/nnx/bridge/wrappers.py (ToNNX, ToLinen, lazy_init, to_linen)', 'flax/nnx/bridge/variables.py', 'flax/nnx/variablelib.py type registry', 'flax/linen Module.apply / nnx.merge as the reference side'], 'stub': ['wrapped Linen module bodies are interpreters over generated program specs']}
ASSUMPTIONS = [
  'the wrapped module itself (Linen apply / nnx.merge) is the reference: if it is wrong, wrapper and reference are wrong alike',
  'nothing is asserted about the wrapper Rngs after a call that raised (keys are drawn before the wrapped module runs)',
]
PROBES = ['namedtuple_valued_variable', 'tonnx_runs', 'tolinen_runs', 'mutable_update_propagated', 'eval_call_no_update', 'roundtrip_split_merge', 'fault_in_wrapped', 'nested_in_nnx_parent', 'nested_in_linen_parent', 'partitioned_param_metadata', 'tolinen_sharding_metadata', 'tolinen_rng', 'tolinen_rng_stored_stream', 'tolinen_skip_rng', 'full_state_roundtrip', 'call_time_rngs', 'convert_roundtrip', 'tolinen_falsy_metadata', 'user_metadata_set', 'custom_registered_type', 'name_reregistered', 'failed_lazy_init_of_parent', 'call_interleaved_with_bridge_apply', 'tolinen_subclass_typed', 'tolinen_exact_collections', 'tolinen_subclass_collection_updated', 'tolinen_variable_edited', 'tolinen_subclass_variable_edited']


def setup_worker(w, tier):
  global np, jax, jnp, nn, nnx, flax, bridge, NMod, NModOwn, NParent, LParent
  P.setup()
  np, jax, jnp, nn, flax = P.np, P.jax, P.jnp, P.nn, P.flax
  from flax import nnx
  from flax.nnx import bridge
  from flax.nnx.bridge import variables as bv
  from sim.props import c09

  c09.setup_worker(w, tier)
  globals().update(bv=bv)

  # Variable types that are subclasses of other Variable types held by the same module.  Defined once per worker process:
  # nnx's collection-name registry is process-wide and keyed by the class name.
  if 'SubParam' not in globals():
    globals().update(SubParam=type(SUBP, (nnx.Param,), {}), SubStat=type(SUBS, (nnx.BatchStat,), {}))

  class NMod(nnx.Module):
    def __init__(self, d, use_rng, shard, sub=(), *, rngs):
      k = rngs.params()
      meta = {'sharding': ('dp',)} if shard is True else ({'layer': 0, 'trainable': False} if shard == 'falsy' else {})
      cmeta = {'synced': False} if shard == 'falsy' else {}
      self.w = nnx.Param(jax.random.randint(k, (d,), -4, 5).astype(jnp.float32), **meta)
      self.count = nnx.BatchStat(jnp.zeros((), jnp.float32), **cmeta)
      self.use_rng = use_rng
      self.rngs = rngs if use_rng else None
      if CUSTOM[0] is not None:
        self.ema = CUSTOM[0](jnp.zeros((), jnp.float32))
      self.sub = tuple(sub)
      if 'lora' in self.sub:
        self.lora = nnx.LoRAParam(jax.random.randint(jax.random.fold_in(k, 1), (d,), -2, 3).astype(jnp.float32), **meta)
      if 'param' in self.sub:
        self.mine = SubParam(jax.random.randint(jax.random.fold_in(k, 2), (d,), -2, 3).astype(jnp.float32), **meta)
      if 'stat' in self.sub:
        self.seen = SubStat(jnp.zeros((), jnp.float32), **cmeta)
      if 'pert' in self.sub:
        # (the nnx.Intermediate next to it is assigned in __call__, the way `sow` does: Linen's init never returns the
        # 'intermediates' collection, so an Intermediate created in the constructor cannot be applied afterwards --
        # unchanged-tree corner, reported, avoided here)
        self.pert = nnx.Perturbation(jnp.zeros((d,), jnp.float32))

    def __call__(self, x, train=True):
      P.CTL.event('nnx-call')
      META_SEEN.append(({k: v for k, v in self.w.get_metadata().items() if not k.endswith('_hooks')}, {k: v for k, v in self.count.get_metadata().items() if not k.endswith('_hooks')}, type(vars(self).get('ema')).__name__))
      if train:
        self.count.value = self.count.value + 1.0
      y = x + self.w.value + self.count.value
      if 'lora' in self.sub:
        y = y + 2.0 * self.lora.value
      if 'param' in self.sub:
        y = y + 3.0 * self.mine.value
      if 'stat' in self.sub:
        if train:
          self.seen.value = self.seen.value + 2.0
        y = y + self.seen.value
      if 'pert' in self.sub:
        self.last = nnx.Intermediate(x.sum())
        y = y + self.pert.value
      if self.use_rng:
        y = y + jax.random.randint(self.rngs.dropout(), y.shape, -3, 4).astype(jnp.float32)
      return y

  class NModOwn(NMod):
    """Same module, but the constructor takes no rngs (ToLinen(skip_rng=True)): it builds its own streams."""

    def __init__(self, d, use_rng, shard, sub=()):
      NMod.__init__(self, d, use_rng, shard, sub, rngs=nnx.Rngs(params=5, dropout=6))

  class NParent(nnx.Module):
    def __init__(self, inner):
      self.inner = inner
      self.scale = nnx.Param(jnp.asarray(2.0, jnp.float32))

    def __call__(self, x, **kw):
      y = self.inner(x, **kw)
      P.CTL.event('parent-after-inner')
      return y * self.scale.value

  class LParent(nn.Module):
    use_rng: bool
    shard: bool
    sub: tuple = ()

    @nn.compact
    def __call__(self, x, train=True):
      b = self.param('b', P.int_init('bias'), (P.D,))
      return bridge.ToLinen(NMod, args=(P.D, self.use_rng, self.shard, self.sub), name='wrapped')(x + b, train)

  class BM(bridge.Module):
    """A Linen-style NNX module (bridge.Module): its apply() installs a module context for the calling thread."""

    def __call__(self, x):
      for _ in range(3):
        P.CTL.event('bridge-module-body')
      return x + 1.0

  globals().update(NMod=NMod, NModOwn=NModOwn, NParent=NParent, LParent=LParent, BM=BM)


def generate(rs, tier):
  g = stream(rs, 'gen')
  if g.random() < 0.65:
    sp = P.gen_module(g, allow=('param', 'param', 'var', 'rng', 'child') + (('sow',) if g.random() < 0.35 else ()))
    def plain_sows(spec):
      # plain tuple-accumulating sows only, at every depth: a keep-the-latest reduce_fn replaces the stored value wholesale
      # (and with it the box that carries a tag the user set on the wrapper's Variable) - legitimately
      for ins in spec['body']:
        if ins['i'] == 'sow':
          ins.pop('how', None)
        if isinstance(ins.get('mod'), dict):
          plain_sows(ins['mod'])

    plain_sows(sp)
    for ins in sp['body']:
      if ins['i'] == 'sow':
        ins['col'] = 'intermediates'
    for ins in sp['body']:
      if ins['i'] == 'var' and g.random() < 0.3:
        ins['kind'] = 'pair'  # a NamedTuple-valued Linen variable: one NNX Variable per field on the wrapper
      if ins['i'] == 'param' and ins['kind'] == 'bias' and g.random() < 0.3:
        ins['part'] = ['dp']
      if ins['i'] == 'rng':
        ins['stream'] = 'dropout'
    _fix_streams(sp)
    ops = []
    for _ in range(g.randrange(2, 9)):
      r = g.random()
      if r < 0.7:
        ops.append(dict(op='call', mutable=g.choice([None, None, ['stats', 'batch_stats', 'cache'], ['stats'], ['batch_stats', 'cache'], ['intermediates'], ['intermediates', 'stats', 'batch_stats', 'cache']]), fill=g.randrange(3)))
        if g.random() < 0.2:
          # this one call brings its own Rngs; the wrapper's own streams are not involved and continue afterwards
          ops[-1]['call_rngs'] = g.randrange(100, 104)
      elif r < 0.8:
        ops.append(dict(op='roundtrip'))
      elif r < 0.88:
        ops.append(dict(op='convert'))
      elif r < 0.97 and r >= 0.93:
        ops.append(dict(op='call_while_other_thread_in_bridge_apply', mutable=None, fill=g.randrange(3), sched_seed=g.getrandbits(40)))
      elif r < 0.93:
        ops.append(dict(op='set_meta', var=g.randrange(64), key=g.choice(['synced', 'layer', 'note']), value=g.choice([False, 0, True, 3, 'x', None])))
      else:
        ops.append(dict(op='fault_call', at=g.randrange(64), mutable=g.choice([None, ['stats', 'batch_stats', 'cache']]), fill=g.randrange(3)))
    return dict(engine='bridgeworld', knobs=dict(kind='tonnx', spec=sp, nested=g.random() < 0.3, failed_parent_init=g.random() < 0.4, seed=g.randrange(5), batch=g.choice([1, 2])), ops=ops)
  ops = []
  custom = g.random() < 0.3
  # Variables of a subclass type next to Variables of the parent type
  sub = [s for s in SUB_KINDS if g.random() < 0.55] if g.random() < 0.5 else []
  for _ in range(g.randrange(2, 7)):
    if custom and g.random() < 0.25:
      ops.append(dict(op='reregister'))
    if g.random() < (0.3 if sub else 0.08):
      # the user replaces one Linen variable (a training step on one collection, a checkpoint restore, ...)
      ops.append(dict(op='edit', target=g.randrange(64), prefer_sub=g.random() < 0.7, value=g.randrange(-4, 5)))
    ops.append(dict(op='apply', train=g.random() < 0.7, mutable=g.random() < 0.7, fill=g.randrange(3), seed=g.randrange(4)))
    if g.random() < 0.45:
      # mutable=True: every collection (the RNG stream state included) comes back; without rngs= the module runs off
      # the stream state stored in the variables
      ops[-1]['mut_all'] = True
    if g.random() < 0.4:
      ops[-1]['stored_rng'] = True
    if sub:
      # further collections in apply's mutable list (next to batch_stats), present in the module or not
      ops[-1]['mut_extra'] = [c for c in MUT_EXTRA if g.random() < 0.3]
  return dict(engine='bridgeworld', knobs=dict(kind='tolinen', sub=sub, custom=custom, tag=g.getrandbits(40), use_rng=g.random() < 0.4, skip_rng=g.random() < 0.2, shard=g.choice([False, False, True, True, 'falsy']), nested=g.random() < 0.35, seed=g.randrange(5), batch=g.choice([1, 2])), ops=ops)


def _fix_streams(sp):
  for ins in sp['body']:
    if ins['i'] == 'rng':
      ins['stream'] = 'dropout'
    if isinstance(ins.get('mod'), dict):
      _fix_streams(ins['mod'])


SHRINK_LISTS = ['ops']
SUBP, SUBS = 'C18SubParam', 'C18SubStat'  # class names = collection names of the user-defined subclass types
SUB_KINDS = ['lora', 'param', 'stat', 'pert']
MUT_EXTRA = ['params', 'LoRAParam', SUBP, SUBS, 'intermediates', 'perturbations']
# kind -> (collection named after the exact type, attribute name, parent type's collection)
SUB_VARS = {'lora': ('LoRAParam', 'lora', 'params'), 'param': (SUBP, 'mine', 'params'), 'stat': (SUBS, 'seen', 'batch_stats'), 'pert': ('perturbations', 'pert', 'intermediates')}


def signature(plan, v):
  return dict(kind=plan['knobs']['kind'])


COL_OF = {'Param': 'params', 'BatchStat': 'batch_stats', 'Cache': 'cache', 'Intermediate': 'intermediates'}


PROBE_HOOK = [lambda name: None]


def extract(w):
  """Linen-style variables {col: nested dict of raw arrays} from the wrapper's attributes, plus a {col/path: Variable} map."""
  out = {}
  where = {}

  def go(x, path):
    if isinstance(x, nnx.Variable):
      col = COL_OF.get(type(x).__name__, type(x).__name__)
      d = out.setdefault(col, {})
      for k in path[:-1]:
        d = d.setdefault(k, {})
      d[path[-1]] = np.asarray(x.value)
      where[(col,) + tuple(path)] = x
    elif isinstance(x, dict):
      for k, v in x.items():
        go(v, path + [k])
    elif isinstance(x, (tuple, list)) and x and all(isinstance(e, nnx.Variable) for e in x):
      # a tuple-valued Linen variable (what `sow` accumulates): one NNX Variable per element
      col = COL_OF.get(type(x[0]).__name__, type(x[0]).__name__)
      d = out.setdefault(col, {})
      for k in path[:-1]:
        d = d.setdefault(k, {})
      d[path[-1]] = type(x)(*(np.asarray(e.value) for e in x)) if hasattr(x, '_fields') else type(x)(np.asarray(e.value) for e in x)
      if hasattr(x, '_fields'):
        PROBE_HOOK[0]('namedtuple_valued_variable')
      for i, e in enumerate(x):
        where[(col,) + tuple(path) + (i,)] = e

  for k, v in vars(w).items():
    if k in ('module', 'rngs', '_object__state'):
      continue
    go(v, [k])
  return out, where


def val(x):
  if isinstance(x, dict) or hasattr(x, 'keys'):
    return ('map', tuple((k, val(x[k])) for k in sorted(x.keys())))
  if isinstance(x, (list, tuple)):
    return (type(x).__name__, tuple(val(v) for v in x))
  if hasattr(x, 'unbox'):
    return val(x.unbox())
  if hasattr(x, 'dtype'):
    a = np.asarray(x)
    if a.dtype.kind == 'f':
      a = a + a.dtype.type(0)  # -0.0 and +0.0 are the same value (sign of zero may differ between execution paths)
    return ('arr', str(a.dtype), a.shape, a.tobytes())
  return ('v', repr(x))


def meta_val(x):
  """Values plus box type and partition names of every leaf."""
  if isinstance(x, dict) or (hasattr(x, 'keys') and not hasattr(x, 'unbox')):
    return ('map', tuple((k, meta_val(x[k])) for k in sorted(x.keys())))
  if hasattr(x, 'unbox'):
    return ('box', type(x).__name__, repr(getattr(x, 'names', 'NO-NAMES-ATTRIBUTE')), val(getattr(x, 'value', None)))
  return val(x)


def merge_vars(base, upd):
  out = {k: (merge_vars(base[k], upd[k]) if k in upd and isinstance(base[k], dict) and isinstance(upd[k], dict) else (upd[k] if k in upd else base[k])) for k in base}
  for k in upd:
    if k not in base:
      out[k] = upd[k]
  return out


def unbox_tree(t):
  return jax.tree.map(lambda x: x.unbox() if hasattr(x, 'unbox') else x, t, is_leaf=lambda x: hasattr(x, 'unbox'))


class ToNNXWorld:
  def __init__(self, plan, res, log):
    self.plan, self.res, self.log = plan, res, log
    k = plan['knobs']
    self.spec = k['spec']
    CUSTOM[0] = None
    self.lin = P.make(self.spec)
    self.user_meta = {}
    self.x0 = P.make_input(k['batch'], 1)
    self.rngs = nnx.Rngs(params=k['seed'], dropout=k['seed'] + 10)
    self.w = bridge.ToNNX(self.lin, rngs=self.rngs)
    P.CTL.reset()
    ref_rngs = nnx.clone(self.rngs)
    bridge.lazy_init(self.w, self.x0)
    # reference init: the Linen module with the keys the wrapper drew
    keys = {name: s() for name, s in ref_rngs.items()}
    P.CTL.reset()
    y, v = self.lin.init_with_output(keys, self.x0)
    got, where = extract(self.w)
    if val(got) != val(unbox_tree(flax.core.unfreeze(v))):
      raise Violation('lazy-init-differs', f'variables held by the wrapper after lazy_init differ from linen init with the same keys: {sorted(got)} vs {sorted(v)}')
    self.check_types(where, 'lazy_init')
    self.top = NParent(self.w) if k['nested'] else self.w
    if k['nested']:
      res.probe('nested_in_nnx_parent')
      if k.get('failed_parent_init'):
        # the user runs lazy_init on the parent as well; it fails AFTER the inner wrapper ran (already initialised)
        before, _ = extract(self.w)
        P.CTL.reset()
        try:
          self.top(self.x0)
        except Exception:  # noqa: BLE001
          pass
        n = P.CTL.count
        P.CTL.reset(fail_at=n - 1)
        try:
          bridge.lazy_init(self.top, self.x0)
        except P.InjectedFault:
          res.fault('raise@callback')
          res.probe('failed_lazy_init_of_parent')
        P.CTL.reset()
        self.rngs = self.w.rngs
    self.calls = 0
    self.lent = []

  def check_types(self, where, what):
    parts = {}
    for ins in _params(self.spec):
      if ins.get('part'):
        parts[ins['name']] = tuple(ins['part'])
    for path, want_md in getattr(self, 'user_meta', {}).items():
      var = where.get(path)
      if var is None:
        raise Violation('state-differs-from-wrapped', f'{what}: Variable {path} disappeared from the wrapper')
      md = var.get_metadata()
      for kk, vv in want_md.items():
        if kk not in md or md[kk] != vv:
          raise Violation('metadata-lost', f'{what}: metadata {kk}={vv!r} set on {path} is gone (metadata now {dict((a, b) for a, b in md.items() if not a.endswith("_hooks"))})')
    for path, var in where.items():
      col = path[0]
      want = {'params': nnx.Param, 'batch_stats': nnx.BatchStat, 'cache': nnx.Cache, 'intermediates': nnx.Intermediate}.get(col)
      if want is not None and type(var) is not want:
        raise Violation('collection-type-mismatch', f'{what}: collection {col!r} at {path[1:]} is stored as {type(var).__name__}, expected {want.__name__}')
      if want is None and type(var).__name__ != col:
        raise Violation('collection-type-mismatch', f'{what}: collection {col!r} at {path[1:]} is stored as {type(var).__name__}')
      if col == 'params' and path[-1] in parts and len(path) == 2:
        md = var.get_metadata()
        if tuple(md.get('sharding') or ()) != parts[path[-1]]:
          raise Violation('metadata-lost', f'{what}: sharding names of {path[1:]} are {md.get("sharding")}, the Linen param was partitioned as {parts[path[-1]]}')
        self.res.probe('partitioned_param_metadata')

  def call(self, oi, op, fault_at=None):
    res = self.res
    x = P.make_input(self.plan['knobs']['batch'], op['fill'])
    before, _ = extract(self.w)
    ref_rngs = nnx.clone(self.rngs)
    kw = {}
    if op['mutable']:
      kw['mutable'] = list(op['mutable'])
    if op.get('call_rngs') is not None:
      own = nnx.Rngs(dropout=op['call_rngs'])
      ref_rngs = nnx.clone(own)
      kw['rngs'] = own
      self.lent.append((own, 1))
      res.probe('call_time_rngs')
    P.CTL.reset(fail_at=fault_at)
    try:
      y = self.top(x, **kw)
      raised = None
    except P.InjectedFault as e:
      raised = e
    n_events = P.CTL.count
    fired = P.CTL.fired
    after, where = extract(self.w)
    if raised is not None:
      res.fault('raise@callback')
      res.probe('fault_in_wrapped')
      if val(after) != val(before):
        raise Violation('state-changed-by-failed-call', f'op {oi}: the wrapped module raised but the wrapper state changed')
      return n_events
    if fault_at is not None and fired:
      raise Violation('exception-swallowed', f'op {oi}: exception injected inside the wrapped module did not reach the caller')
    keys = {name: s() for name, s in ref_rngs.items()}
    P.CTL.reset()
    if op['mutable']:
      y_ref, upd = self.lin.apply(before, x, rngs=keys, mutable=list(op['mutable']))
      want_state = merge_vars(before, unbox_tree(flax.core.unfreeze(upd)))
    else:
      y_ref = self.lin.apply(before, x, rngs=keys)
      want_state = before
    if self.plan['knobs']['nested']:
      y_ref = y_ref * 2.0
    if val(y) != val(y_ref):
      raise Violation('output-differs-from-wrapped', f'op {oi} call(mutable={op["mutable"]}): wrapper returned {val(y)[3][:24]!r}..., linen apply on the wrapper\'s variables returns something else')
    if val(after) != val(want_state):
      raise Violation('state-differs-from-wrapped', f'op {oi} call(mutable={op["mutable"]}): wrapper state after the call differs from the variables + mutable updates of linen apply')
    if op['mutable'] and val(after) != val(before):
      res.probe('mutable_update_propagated')
    if not op['mutable']:
      res.probe('eval_call_no_update')
    self.check_types(where, f'op {oi}')
    for own, n in self.lent:
      if own is not kw.get('rngs') and int(own.dropout.count.value) != n:
        raise Violation('callers-rngs-advanced', f'op {oi}: an Rngs object passed to one earlier call was advanced by a later call (count {int(own.dropout.count.value)}, it was used for {n} call)')
    self.calls += 1
    return n_events

  def step(self, oi, op):
    if op['op'] == 'call':
      self.call(oi, op)
      self.log.add(oi, 'call', repr(op['mutable']))
    elif op['op'] == 'fault_call':
      n = self.call(oi, dict(op, op='call'))
      # faults go INSIDE the wrapped module; the parent's own event after the inner call returned is not one of them
      # (by then the wrapper has legitimately written its updates back)
      n_inner = n - 1 if self.plan['knobs']['nested'] else n
      self.call(oi, op, fault_at=op['at'] % max(1, n_inner))
      self.call(oi, dict(op, op='call'))
      self.log.add(oi, 'fault_call')
    elif op['op'] == 'call_while_other_thread_in_bridge_apply':
      # another (simulated) thread sits inside bridge.Module.apply(..., mutable=[...]) of an unrelated module while
      # this thread makes a plain call of the standalone wrapper: the wrapper must behave exactly as when called alone
      from sim import sched as S

      sc = S.Sched(rng=stream(op['sched_seed'], 'sched'), step_cap=20000)
      xb = P.make_input(self.plan['knobs']['batch'], 0)
      out = {}

      def other():
        out['y'] = BM().apply({}, xb, mutable=['stats', 'batch_stats', 'cache', 'params'])

      P.CTL.yield_hook = lambda what: sc.yield_('ev')
      try:
        t = S.SimThread(sc, target=other)
        t.start()
        self.call(oi, dict(op, op='call'))
        t.join()
      except (S.Deadlock, S.StepCap) as e:
        raise Violation('concurrent-calls-interfere', f'op {oi}: {e}')
      finally:
        P.CTL.yield_hook = None
        sc.shutdown()
      exc = [t_.get('exc') for t_ in sc.tasks.values() if t_.get('exc') is not None]
      if exc:
        raise Violation('concurrent-calls-interfere', f'op {oi}: bridge.Module.apply in the other thread raised {type(exc[0]).__name__}: {str(exc[0])[:200]}')
      if any(sc.trace):
        self.res.probe('call_interleaved_with_bridge_apply')
      self.log.add(oi, 'concurrent', len(sc.trace))
    elif op['op'] == 'set_meta':
      # the user tags a Variable held by the wrapper; the tag must survive every later call (falsy values included)
      _, where = extract(self.w)
      paths = sorted(where)
      if paths:
        pth = paths[op['var'] % len(paths)]
        setattr(where[pth], op['key'], op['value'])
        self.user_meta.setdefault(pth, {})[op['key']] = op['value']
        self.res.probe('user_metadata_set')
      self.log.add(oi, 'set_meta')
    elif op['op'] == 'convert':
      # converting Linen variables to NNX attributes and back preserves values, names and sharding metadata,
      # and leaves the variables passed in untouched
      P.CTL.reset()
      v = self.lin.init({'params': jax.random.key(1), 'dropout': jax.random.key(2)}, self.x0)
      v = flax.core.unfreeze(v)
      before = meta_val(v)
      attrs = bv.linen_vars_to_nnx_attrs(v)
      if meta_val(v) != before:
        raise Violation('conversion-mutated-input', f'op {oi}: linen_vars_to_nnx_attrs changed the Linen variables passed in: {before} -> {meta_val(v)}')
      back = bv.nnx_attrs_to_linen_vars(attrs)
      if meta_val(back) != before:
        raise Violation('conversion-not-lossless', f'op {oi}: Linen -> NNX -> Linen conversion changed values, names or sharding metadata: {before} -> {meta_val(back)}')
      self.res.probe('convert_roundtrip')
      self.log.add(oi, 'convert')
    else:
      gd, st = nnx.split(self.top)
      new = nnx.merge(gd, st)
      w2 = new.inner if self.plan['knobs']['nested'] else new
      a, _ = extract(self.w)
      b, where = extract(w2)
      if val(a) != val(b):
        raise Violation('roundtrip-lost-state', f'op {oi}: split/merge of the wrapper changed its variables')
      self.check_types(where, f'op {oi} after split/merge')
      # continue the history on the re-inserted wrapper
      self.top, self.w, self.rngs = new, w2, w2.rngs
      self.res.probe('roundtrip_split_merge')
      self.log.add(oi, 'roundtrip')


def _params(spec):
  for ins in spec['body']:
    if ins['i'] == 'param':
      yield ins


META_SEEN = []
CUSTOM = [None]  # per-run custom Variable type of the wrapped NNX class


class ToLinenWorld:
  def __init__(self, plan, res, log):
    self.plan, self.res, self.log = plan, res, log
    k = plan['knobs']
    self.k = k
    CUSTOM[0] = None
    if k.get('custom'):
      # a user-defined Variable type registered under a user-chosen collection name (unique per run: the registry is
      # process-global)
      from flax.nnx import variablelib

      self.vl = variablelib
      self.cname = f'ema_{k["tag"]:x}'
      self.ctype = type(f'EmaA_{k["tag"]:x}', (nnx.Variable,), {})
      variablelib.register_variable_name(self.cname, self.ctype)
      CUSTOM[0] = self.ctype
      self.ccol = self.cname
      res.probe('custom_registered_type')
    self.sub = tuple(k.get('sub') or ())
    if self.sub:
      res.probe('tolinen_subclass_typed')
    if k['nested']:
      self.lm = LParent(k['use_rng'], k['shard'], self.sub)
      res.probe('nested_in_linen_parent')
    elif k.get('skip_rng'):
      # documented option: the NNX constructor takes no rngs; the module may still own streams, and apply(rngs=...) reseeds them
      self.lm = bridge.ToLinen(NModOwn, args=(P.D, k['use_rng'], k['shard'], self.sub), skip_rng=True)
      res.probe('tolinen_skip_rng')
    else:
      self.lm = bridge.to_linen(NMod, P.D, k['use_rng'], k['shard'], self.sub)
    self.x0 = P.make_input(k['batch'], 1)
    self.calls = 0
    self.init_vars('init')
    inner = self.inner(self.vars)
    for col in ('params', 'batch_stats', 'nnx'):
      if col not in inner:
        raise Violation('collection-missing', f'init: ToLinen variables lack collection {col!r}: {sorted(inner)}')
    if 'w' not in inner['params'] or 'count' not in inner['batch_stats']:
      raise Violation('collection-type-mismatch', f'init: Param / BatchStat are not exposed under params / batch_stats: {jax.tree.map(lambda x: 0, inner)}')
    self.want_meta = ({'sharding': ('dp',)}, {}) if k['shard'] is True else (({'layer': 0, 'trainable': False}, {'synced': False}) if k['shard'] == 'falsy' else ({}, {}))
    if k['shard']:
      more = [(SUB_VARS[s][0], SUB_VARS[s][1], self.want_meta[1 if s == 'stat' else 0]) for s in self.sub if s != 'pert']
      for col, name, want in [('params', 'w', self.want_meta[0]), ('batch_stats', 'count', self.want_meta[1])] + more:
        if not want:
          continue
        box = inner[col][name]
        md = getattr(box, 'metadata', None)
        if md is None or {kk: md.get(kk) for kk in want} != want:
          raise Violation('metadata-lost', f'init: metadata {want} of the NNX {col}/{name} Variable is not preserved in the Linen variable: {type(box).__name__} {md}')
      res.probe('tolinen_sharding_metadata' if k['shard'] is True else 'tolinen_falsy_metadata')

  def inner(self, v):
    return {c: (t['wrapped'] if self.k['nested'] else t) for c, t in v.items() if not self.k['nested'] or 'wrapped' in t}

  def init_vars(self, what):
    k = self.k
    P.CTL.reset()
    self.vars = self.lm.init({'params': jax.random.key(k['seed']), 'dropout': jax.random.key(k['seed'] + 7)}, self.x0)
    # the graphdef held in self.vars knows the Intermediate the module assigns while it runs only after an
    # apply(mutable=True) whose 'nnx' collection was kept
    self.has_last = False
    # every Variable the freshly constructed NNX module holds, under the collection of its exact type, nothing twice
    self.check_exact(what, self.inner(self.vars), self.ref_state(self.fresh_module()), True)

  def fresh_module(self):
    k = self.k
    if k.get('skip_rng') and not k['nested']:
      return NModOwn(P.D, k['use_rng'], k['shard'], self.sub)
    return NMod(P.D, k['use_rng'], k['shard'], self.sub, rngs=nnx.Rngs(params=0, dropout=1))

  def check_exact(self, what, got_all, want, mut):
    """The returned collections hold exactly the Variables of `want` ({(collection, path): value} read off the hand-built
    NNX module by exact type) that live in a mutable collection: nothing missing, nothing extra, nothing in two places."""
    got = flat_vars({c: t for c, t in got_all.items() if c != 'nnx'})
    want_keys = {kp for kp in want if mut is True or kp[0] in mut}
    extra = sorted(set(got) - want_keys)
    missing = sorted(want_keys - set(got))
    if extra:
      twice = [kp for kp in extra if any(w[1] == kp[1] for w in want)]
      if twice:
        col, path_ = twice[0]
        home = [w[0] for w in want if w[1] == path_][0]
        raise Violation('variable-in-two-collections', f'{what}: Variable {"/".join(path_)} (collection {home!r} by its type) is ALSO returned under collection {col!r}; returned: {sorted(got)}')
      raise Violation('collection-type-mismatch', f'{what}: returned variables contain {extra}, which the NNX module does not hold under those types; returned: {sorted(got)}')
    if missing:
      raise Violation('collection-missing', f'{what}: {missing} not returned (mutable={mut}); returned: {sorted(got)}')
    self.res.probe('tolinen_exact_collections')
    return got

  def step(self, oi, op):
    k = self.k
    if op['op'] == 'reregister':
      # the collection name is taken over by another type; the module still holds Variables of the first type,
      # which from now on must travel under their own (type-named) collection
      other = type(f'EmaB_{k["tag"]:x}_{oi}', (nnx.Variable,), {})
      self.vl.register_variable_name(self.cname, other, overwrite=True)
      self.ccol = self.ctype.__name__
      self.init_vars(f'op {oi} init after re-registration')
      self.res.probe('name_reregistered')
      self.log.add(oi, 'reregister')
      return
    if op['op'] == 'edit':
      # one Linen variable is replaced by the user; the next apply must compute with it (checked against the hand-built
      # NNX module, which reads every value from the collection of the Variable's exact type)
      cands = [('params', 'w', False), ('batch_stats', 'count', False)] + [(SUB_VARS[s][0], SUB_VARS[s][1], True) for s in self.sub]
      pref = [c for c in cands if c[2]] if op.get('prefer_sub') else []
      col, name, is_sub = (pref or cands)[op['target'] % len(pref or cands)]
      new = flax.core.unfreeze(self.vars)
      new = {c: dict(t) if isinstance(t, dict) else t for c, t in new.items()}
      if k['nested']:
        new[col]['wrapped'] = dict(new[col]['wrapped'])
      holder = new[col]['wrapped'] if k['nested'] else new[col]
      old = holder[name]
      shape = np.shape(val_of(old))
      arr = jnp.asarray(np.full(shape, float(op['value'] if shape else abs(op['value'])), np.float32))
      holder[name] = old.replace_boxed(arr) if hasattr(old, 'replace_boxed') else arr
      self.vars = new
      self.res.probe('tolinen_subclass_variable_edited' if is_sub else 'tolinen_variable_edited')
      self.log.add(oi, 'edit', col, name)
      return
    x = P.make_input(k['batch'], op['fill'])
    stored = bool(op.get('stored_rng'))
    mut_all = bool(op.get('mut_all'))
    rngs = {} if stored else {'dropout': jax.random.key(op['seed'] + 20)}
    inner = self.inner(self.vars)
    w_val = np.asarray(val_of(inner['params']['w']))
    c_val = np.asarray(val_of(inner['batch_stats']['count']))
    want_count = c_val + (1.0 if op['train'] else 0.0)
    xin = x
    if k['nested']:
      xin = x + np.asarray(self.vars['params']['b'])
    y_ref = xin + w_val + want_count
    # closed form for the subclass-typed Variables: each value is read from the collection named after its exact type
    if 'lora' in self.sub:
      y_ref = y_ref + 2.0 * np.asarray(val_of(inner['LoRAParam']['lora']))
    if 'param' in self.sub:
      y_ref = y_ref + 3.0 * np.asarray(val_of(inner[SUBP]['mine']))
    if 'stat' in self.sub:
      y_ref = y_ref + np.asarray(val_of(inner[SUBS]['seen'])) + (2.0 if op['train'] else 0.0)
    if 'pert' in self.sub:
      y_ref = y_ref + np.asarray(val_of(inner['perturbations']['pert']))
    # reference: the NNX class instantiated by hand, given the state held in the Linen variables (values copied in one
    # by one -- no bridge code involved), reseeded with the key ToLinen derives when rngs are passed, then called
    ref = self.ref_module(inner, rngs)
    P.CTL.reset()
    y_twin = ref(jnp.asarray(xin), op['train'])
    P.CTL.reset()
    mut = True if mut_all else (['batch_stats'] + list(op.get('mut_extra') or ()) if op['mutable'] else False)
    if k['use_rng']:
      self.res.probe('tolinen_rng_stored_stream' if stored else 'tolinen_rng')
    del META_SEEN[:]
    out = self.lm.apply(self.vars, x, op['train'], rngs=rngs, mutable=mut)
    if mut:
      y, upd = out
    else:
      y, upd = out, {}
    for seen in META_SEEN:
      if k.get('custom') and seen[2] != self.ctype.__name__:
        raise Violation('collection-type-mismatch', f'op {oi}: the wrapped module was built with a {self.ctype.__name__} Variable but inside apply it holds a {seen[2]} (name <-> type registry not inverse)')
      got = tuple({kk: d.get(kk) for kk in w} for d, w in zip(seen, self.want_meta))
      if got != self.want_meta:
        raise Violation('metadata-lost', f'op {oi}: inside apply the rebuilt NNX module sees Variable metadata {seen}, the module was built with {self.want_meta}')
    if not k['use_rng']:
      if val(y) != val(y_ref.astype(np.float32)):
        raise Violation('output-differs-from-wrapped', f'op {oi} apply(train={op["train"]}, mutable={mut}): ToLinen returned {np.asarray(y).tolist()}, the NNX module on the same state returns {y_ref.tolist()}')
    elif not stored:
      # with RNG: feed the arithmetic model the key ToLinen derives (model of make_rng at this path)
      from sim.props.c09 import model_key

      path = ('wrapped',) if k['nested'] else ()
      key, _ = model_key(rngs['dropout'], path + (1,), flax.config.flax_fix_rng_separator)
      noise = np.asarray(jax.random.randint(jax.random.fold_in(key, 0), y_ref.shape, -3, 4)).astype(np.float32)
      if val(y) != val((y_ref + noise).astype(np.float32)):
        raise Violation('output-differs-from-wrapped', f'op {oi} apply(train={op["train"]}) with RNG: ToLinen output differs from the NNX module reseeded with the derived key')
    if val(y) != val(np.asarray(y_twin)):
      raise Violation('output-differs-from-wrapped', f'op {oi} apply(train={op["train"]}, mutable={mut}, rngs={"none (stored stream state)" if stored else "given"}): ToLinen returned {np.asarray(y).tolist()}, the NNX module with the same state returns {np.asarray(y_twin).tolist()}')
    if mut:
      got = self.inner(upd).get('batch_stats', {}).get('count')
      if got is None or float(np.asarray(val_of(got))) != float(want_count):
        raise Violation('state-differs-from-wrapped', f'op {oi}: updated batch_stats count is {None if got is None else float(np.asarray(val_of(got)))}, the NNX module leaves {float(want_count)}')
      if not mut_all:
        for col in sorted(upd):
          if col not in mut:
            raise Violation('state-differs-from-wrapped', f'op {oi}: apply(mutable={mut}) returned collection {col!r} as well')
      # every Variable of the NNX module (of the mutable collections) comes back under the collection named after its
      # exact type and nowhere else, with the value the module left in it (the RNG stream keys and counters are
      # Variables like any other)
      want = self.ref_state(ref)
      got_flat = self.check_exact(f'op {oi} apply(mutable={mut})', self.inner(upd), want, mut)
      for kp in sorted(got_flat):
        gv, wv = val_of(got_flat[kp]), want[kp]
        if raw_bytes(gv) != raw_bytes(wv):
          raise Violation('state-differs-from-wrapped', f'op {oi} apply(mutable={mut}, rngs={"none" if stored else "given"}): {kp[0]}/{"/".join(kp[1])} comes back as {show(gv)}, the NNX module with the same state leaves {show(wv)}')
      if mut_all:
        self.res.probe('full_state_roundtrip')
      if op['train'] and (SUBS, ('seen',)) in got_flat:
        self.res.probe('tolinen_subclass_collection_updated')
      upd = flax.core.unfreeze(upd)
      if mut_all and 'pert' in self.sub:
        self.has_last = True
      elif not self.has_last:
        # the Intermediate assigned during this apply is unknown to the graphdef kept in self.vars: feeding it back would
        # be rejected by nnx.merge ("got an extra 1 leaves") -- intermediates are outputs, as in Linen
        upd.pop('intermediates', None)
      self.vars = merge_vars(flax.core.unfreeze(self.vars), upd)
      if op['train']:
        self.res.probe('mutable_update_propagated')
    else:
      self.res.probe('eval_call_no_update')
    self.calls += 1
    self.log.add(oi, 'apply', op['train'], repr(mut), stored)

  def ref_module(self, inner, rngs):
    k = self.k
    m = self.fresh_module()
    m.w.value = jnp.asarray(val_of(inner['params']['w']))
    m.count.value = jnp.asarray(val_of(inner['batch_stats']['count']))
    for s in self.sub:
      col, name, _ = SUB_VARS[s]
      getattr(m, name).value = jnp.asarray(val_of(inner[col][name]))
    if k.get('custom') and 'ema' in vars(m):
      for col, t in inner.items():
        if col not in ('params', 'batch_stats', 'nnx', 'RngKey', 'RngCount') and 'ema' in t:
          m.ema.value = jnp.asarray(val_of(t['ema']))
    if k['use_rng']:
      from sim.props.c09 import model_key

      for name in ('params', 'dropout'):
        st = getattr(m.rngs, name)
        st.key.value = val_of(inner['RngKey']['rngs'][name]['key'])
        st.count.value = jnp.asarray(val_of(inner['RngCount']['rngs'][name]['count']))
        if name in rngs:
          path = ('wrapped',) if k['nested'] else ()
          key, _ = model_key(rngs[name], path + (1,), flax.config.flax_fix_rng_separator)
          st.key.value = key
          st.count.value = jnp.array(0, dtype=jnp.uint32)
    return m

  def ref_state(self, m):
    out = {('params', ('w',)): m.w.value, ('batch_stats', ('count',)): m.count.value}
    for s in self.sub:
      col, name, _ = SUB_VARS[s]
      out[(col, (name,))] = getattr(m, name).value
    if 'last' in vars(m):
      out[('intermediates', ('last',))] = m.last.value
    if self.k.get('custom') and 'ema' in vars(m):
      out[(self.ccol, ('ema',))] = m.ema.value
    if self.k['use_rng']:
      for name in ('params', 'dropout'):
        st = getattr(m.rngs, name)
        out[('RngKey', ('rngs', name, 'key'))] = st.key.value
        out[('RngCount', ('rngs', name, 'count'))] = st.count.value
    return out


def flat_vars(t, path=()):
  """{(collection, path): leaf} of Linen-style variables (metadata boxes are leaves)."""
  out = {}
  for key in t.keys():
    v = t[key]
    if not hasattr(v, 'unbox') and (isinstance(v, dict) or hasattr(v, 'keys')):
      out.update(flat_vars(v, path + (key,)))
    else:
      out[(path[0], path[1:] + (key,))] = v
  return out


def raw_bytes(x):
  if hasattr(x, 'dtype') and jax.dtypes.issubdtype(x.dtype, jax.dtypes.prng_key):
    x = jax.random.key_data(x)
  a = np.asarray(x)
  return (str(a.dtype), a.shape, a.tobytes())


def show(x):
  if hasattr(x, 'dtype') and jax.dtypes.issubdtype(x.dtype, jax.dtypes.prng_key):
    x = jax.random.key_data(x)
  return np.asarray(x).tolist()


def val_of(x):
  return x.unbox() if hasattr(x, 'unbox') else x


def execute(plan):
  res = Result()
  log = kernel.Log()
  viol = None
  k = plan['knobs']
  oi, op = -1, {}
  w = None
  try:
    PROBE_HOOK[0] = res.probe
    if k['kind'] == 'tonnx':
      res.probe('tonnx_runs')
      w = ToNNXWorld(plan, res, log)
    else:
      res.probe('tolinen_runs')
      w = ToLinenWorld(plan, res, log)
    for oi, op in enumerate(plan['ops']):
      w.step(oi, op)
  except Violation as v:
    viol = dict(kind=v.kind, detail=v.detail)
  except (kernel.HarnessError, RecursionError):
    raise
  except Exception as e:  # noqa: BLE001
    if not kernel.through_sut(e):
      raise
    viol = dict(kind='unexpected-exception', detail=f'op {oi} {op.get("op")}: {type(e).__name__}: {str(e)[:500]}')
  finally:
    P.CTL.reset()
  res.steps = w.calls if w else 0
  res.ops = len(plan['ops'])
  res.digest = log.digest()
  res.nontrivial = bool(w and w.calls >= 2)
  res.violation = viol
  return res
