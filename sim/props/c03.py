"""C03 - NNX split/merge round-trips any object graph, preserving sharing and cycles.

nnxworld: a heap of graphs grown by edit ops (attributes set to static values, arrays, Variables with
metadata, references to ANY existing object -> sharing, diamonds, self references and cycles arise on
their own; fresh list/dict/tuple containers and generic pytree containers - namedtuple, OrderedDict, flax.struct
dataclass - with their fields declared in every order), mirrored by a pure-Python model; API ops split / merge /
state / graphdef / update / pop / clone / iter_graph are checked against the mirror, and after every
op the canonical form and object identities of every root are compared with the mirror's.
"""
from __future__ import annotations

import gc

from sim import kernel, nnxworld as W
from sim.kernel import Result, Violation, stream

PROP = 'C03'
TIERS = {
  'quick': dict(runs=24000, deadline=45, workers=16),
  'thorough': dict(runs=600000, deadline=780, workers=16),
}
SELFTEST_RUNS = 300
RULE = (
  'each run = one history: 4..20 graph-edit ops on a heap of <= 12 nodes (new node, static / array / Variable-with-metadata '
  'attribute, reference to any existing node or Variable, fresh list/dict/tuple container, fresh namedtuple / OrderedDict / '
  'flax.struct container with 2-4 fields in a generated declaration order, delete) interleaved with API ops '
  '(split with 0-3 generated filters then merge in shuffled state order, state, graphdef equality/hash vs an isomorphic clone, '
  'update with perturbed / foreign-isomorphic / partial states, pop, clone, iter_graph) and gc events; after every op every '
  'root is compared with the pure-Python mirror (canonical form incl. identity classes, and object identity). Non-trivial = '
  'graph has sharing or a cycle, or >= 3 API ops ran; distinct = distinct event-log digest.'
)
STEP_UNIT = 'graph edit and API operations'
COMPONENTS = {'real': ['flax/nnx/graph.py (flatten/unflatten/split/merge/state/update/pop/clone/graphdef/iter_graph)', 'flax/nnx/object.py', 'flax/nnx/statelib.py', 'flax/nnx/variablelib.py', 'flax/nnx/filterlib.py'], 'stub': []}
ASSUMPTIONS = [
  'plain list/dict/tuple containers are value-like pytrees in NNX (no identity): the generator never aliases one container under two parents',
  'pop is only generated when no selected Variable is shared between paths or sits directly inside a list/dict/tuple (behaviour the property does not pin down)',
  'a raw array directly inside a list/tuple/dict/namedtuple/OrderedDict/struct container is an immutable leaf for flax (update raises ValueError by design): no update is generated on a graph that has one',
  'there is no scheduler or I/O behind this property; the simulator contributes long aliasing/edit histories against a model, gc instants and identity checks',
]
PROBES = ['pop_shared_variable', 'shared_variable', 'shared_or_cyclic_node', 'self_reference', 'pytree_container', 'long_list_container', 'generic_pytree_container', 'generic_rotated_field_order', 'cycle_in_graph', 'split_nonexhaustive_raises', 'merge_shuffled', 'update_foreign', 'pop_done', 'graphdef_differs_after_edit', 'gc_event', 'metadata_edited_in_place', 'snapshot_restored', 'container_root', 'state_routes_checked', 'failed_call_then_continue']


def setup_worker(w, tier):
  W.setup()
  global np, jax, nnx
  np, jax, nnx = W.np, W.jax, W.nnx


def generate(rs, tier):
  g = stream(rs, 'gen')
  ops = W.gen_build_ops(g, g.randrange(3, 12), W.STATICS_TYPED, generic=True)
  n_api = g.randrange(2, 10)
  for _ in range(n_api):
    r = g.random()
    root = g.randrange(64)
    if r < 0.28:
      nf = g.choice([0, 1, 1, 2, 2, 3])
      fs = [W.gen_filter(g) for _ in range(nf)]
      if nf and g.random() < 0.7:
        fs[-1] = {'e': True}
      api = dict(op='split_merge', root=root, filters=fs, shuffle=g.randrange(1000), wrap=g.choice([None, None, None, 'list', 'dict', 'tuple']), root2=g.randrange(64))
    elif r < 0.40:
      api = dict(op='state', root=root, filters=[W.gen_filter(g)] if g.random() < 0.4 else [])
      if g.random() < 0.4:
        # the same partition through the other public routes: State.split / filter / merge, split_state / merge_state,
        # pure-dict round trip, nnx.variables
        api['routes'] = [W.gen_filter(g) for _ in range(g.choice([1, 1, 2]))]
    elif r < 0.46:
      api = dict(op='graphdef', root=root, edit=g.random() < 0.5)
    elif r < 0.50:
      api = dict(op='keep', root=root)  # keep graphdef + state of this root; checked / restored by later ops
    elif r < 0.68:
      api = dict(op='update', root=root, how=g.choice(['perturb', 'foreign', 'partial', 'two_states', 'restore_kept', 'restore_kept']), filt=W.gen_filter(g), delta=g.randrange(1, 9))
    elif r < 0.78:
      api = dict(op='pop', root=root, filters=[W.gen_filter(g) for _ in range(g.choice([1, 1, 2]))])
    elif r < 0.88:
      api = dict(op='clone', root=root, wrap=g.choice([None, None, 'list', 'dict']), root2=g.randrange(64))
    elif r < 0.93:
      api = dict(op='iter_graph', root=root)
    elif r < 0.96:
      api = dict(op='failed_call', root=root, api=g.choice(['split', 'state', 'clone', 'graphdef']))
    else:
      api = dict(op='gc')
    pos = g.randrange(max(1, len(ops) // 2), len(ops) + 1)
    ops.insert(pos, api)
    if api['op'] == 'keep' and g.random() < 0.7:
      # the history this snapshot is for: metadata edited in place afterwards, then the snapshot restored
      ops.insert(pos + 1, dict(op='setmeta', var=g.randrange(64), key=g.choice(['tag', 'note']), value=g.choice(['x', 'y', 'frozen'])))
      ops.insert(pos + 2, dict(op='update', root=root, how='restore_kept', filt={'e': True}, delta=1))
    if g.random() < 0.3:
      ops[-1:-1] = W.gen_build_ops(g, 2, W.STATICS_TYPED, generic=True)[1:]
  if g.random() < 0.25:
    # some Variables carry a user get-hook: `.value` shows a transformed view, the stored value is what split, state,
    # update, clone and pop move around
    for _ in range(g.choice([1, 2])):
      ops.insert(g.randrange(1, len(ops) + 1), dict(op='setmeta', var=g.randrange(64), key='on_get_value', value='@GETHOOK'))
  return dict(engine='nnxworld', knobs=dict(gc_every=g.choice([0, 0, 3])), ops=ops)


SHRINK_LISTS = ['ops']


def signature(plan, v):
  return {}


def has_cycle(root):
  state = {}

  def go(x):
    if not isinstance(x, W.MNode):
      return False
    if state.get(x.id) == 1:
      return True
    if state.get(x.id) == 2:
      return False
    state[x.id] = 1
    for e in x.attrs.values():
      if e[0] == 'ref' and go(e[1]):
        return True
    state[x.id] = 2
    return False

  return go(root)


def check_states_against_model(states, mroot, filters, where):
  """Each leaf lands in exactly the first matching filter's state, under its first path, in sorted order."""
  leaves = W.model_leaves(mroot)
  want = [[] for _ in states]
  for path, leaf in leaves:
    if not filters:
      want[0].append((path, W.leaf_rec_model(leaf)))
      continue
    for i, f in enumerate(filters):
      if W.filter_model(f, path, leaf):
        want[i].append((path, W.leaf_rec_model(leaf)))
        break
  for i, st in enumerate(states):
    got = [(p, W.leaf_rec_real(v)) for p, v in W.flat_real_state(st)]
    if sorted(got, key=lambda x: repr(x[0])) != sorted(want[i], key=lambda x: repr(x[0])):
      raise Violation('state-partition-wrong', f'{where}: state #{i} holds {[p for p, _ in got]}, first-match partition gives {[p for p, _ in want[i]]} (or values/metadata differ)')
    if [p for p, _ in got] != [p for p, _ in want[i]]:
      raise Violation('state-order-wrong', f'{where}: state #{i} lists paths {[p for p, _ in got]}, expected sorted first-path order {[p for p, _ in want[i]]}')


def exhaustive(mroot, filters):
  if not filters:
    return True
  return all(any(W.filter_model(f, p, l) for f in filters) for p, l in W.model_leaves(mroot))


def execute(plan):
  res = Result()
  log = kernel.Log()
  h = W.Heap()
  viol = None
  api_ops = 0
  kept = []
  oi = -1
  op = {}
  try:
    for oi, op in enumerate(plan['ops']):
      k = op['op']
      where = f'op {oi} {k}'
      if W.apply_build_op(h, op, res):
        log.add(oi, k)
      elif k == 'gc':
        gc.collect()
        res.fault('gc')
        res.probe('gc_event')
        log.add(oi, 'gc')
      else:
        api_ops += 1
        nid = h.node(op['root'])
        m, r = h.model[nid], h.real[nid]
        if op.get('wrap'):
          # the root is a fresh (never aliased) plain container holding two heap nodes - possibly the same one twice
          nid2 = h.node(op['root2'])
          mm = W.MNode(-1, op['wrap'], op['wrap'])
          if op['wrap'] == 'dict':
            mm.attrs = {'first': ('ref', m), 'second': ('ref', h.model[nid2])}
            r = {'first': r, 'second': h.real[nid2]}
          else:
            mm.attrs = {0: ('ref', m), 1: ('ref', h.model[nid2])}
            r = [r, h.real[nid2]] if op['wrap'] == 'list' else (r, h.real[nid2])
          m = mm
          res.probe('container_root')
        if has_cycle(m):
          res.probe('cycle_in_graph')
        if k == 'failed_call':
          # the injected fault of this world: an API call that raises in the middle of its traversal (a dict attribute
          # whose keys cannot be ordered, reached after other objects were visited); the caller repairs the graph and
          # goes on - every later call must behave as if the failed one had never happened
          if not isinstance(r, nnx.Object):
            continue
          vars(r)['zz_bad'] = {1: 0, 'y': 0}
          raised = False
          try:
            {'split': nnx.split, 'state': nnx.state, 'clone': nnx.clone, 'graphdef': nnx.graphdef}[op['api']](r)
          except Exception:  # noqa: BLE001
            raised = True
          finally:
            del vars(r)['zz_bad']
          if raised:
            res.fault('raise_in_traversal')
            res.probe('failed_call_then_continue')
          gd, st = nnx.split(r)
          back = nnx.merge(gd, st)
          cb, cm = W.canon_real(back), W.canon_model(m)
          if cb != cm:
            raise Violation('merge-not-isomorphic', f'{where}: after a {op["api"]} call that raised, merge(split(g)) = {W._short(cb)} but g = {W._short(cm)}')
          log.add(oi, k, raised)
          continue
        if k == 'split_merge':
          fs = op['filters']
          real_fs = [W.filter_real(f) for f in fs]
          bad_order = any('e' in f for f in fs[:-1])
          if bad_order:
            continue
          if not exhaustive(m, fs):
            try:
              nnx.split(r, *real_fs)
            except ValueError:
              res.probe('split_nonexhaustive_raises')
              log.add(oi, k, 'nonexhaustive')
            else:
              raise Violation('split-lost-state', f'{where}: filters do not cover every Variable but split did not raise')
          else:
            gd, *states = nnx.split(r, *real_fs)
            check_states_against_model(states, m, fs, where)
            order = list(range(len(states)))
            stream(op['shuffle'], 'shuffle').shuffle(order)
            if order != sorted(order):
              res.probe('merge_shuffled')
            new = nnx.merge(gd, *[states[i] for i in order])
            cn, cm = W.canon_real(new), W.canon_model(m)
            if cn != cm:
              raise Violation('merge-not-isomorphic', f'{where}: merge(split(g)) = {W._short(cn)} but g = {W._short(cm)}')
            shared = set(W.real_objects(new)) & set(W.real_objects(r))
            if shared:
              raise Violation('merge-shares-objects', f'{where}: merge(split(g)) shares {len(shared)} mutable objects with g')
            log.add(oi, k, len(states), kernel.digest(cm))
        elif k == 'state':
          fs = op['filters']
          if fs:
            st = nnx.state(r, W.filter_real(fs[0]))
            leaves = [(p, W.leaf_rec_model(l)) for p, l in W.model_leaves(m) if W.filter_model(fs[0], p, l)]
          else:
            st = nnx.state(r)
            leaves = [(p, W.leaf_rec_model(l)) for p, l in W.model_leaves(m)]
          got = [(p, W.leaf_rec_real(v)) for p, v in W.flat_real_state(st)]
          if got != leaves:
            raise Violation('state-wrong', f'{where}: state lists {[p for p, _ in got]}, expected each Variable once under its first path in sorted order {[p for p, _ in leaves]} (or values differ)')
          if op.get('routes'):
            flat = lambda s_: [(p, W.leaf_rec_real(v)) for p, v in W.flat_real_state(s_)]  # noqa: E731
            rf = [W.filter_real(f) for f in op['routes']]
            full = nnx.state(r)
            direct = nnx.state(r, *rf, ...)
            for name, parts in (('State.split', full.split(*rf, ...)), ('nnx.split_state', nnx.split_state(full, *rf, ...))):
              if [flat(a) for a in parts] != [flat(a) for a in direct]:
                raise Violation('state-partition-wrong', f'{where}: {name}(filters) partitions the Variables differently from nnx.state(node, filters)')
            if flat(full.filter(rf[0])) != flat(nnx.state(r, rf[0])):
              raise Violation('state-partition-wrong', f'{where}: State.filter(f) differs from nnx.state(node, f)')
            parts_before = [flat(a) for a in direct]
            for name, merged in (('State.merge', nnx.State.merge(*direct)), ('nnx.merge_state', nnx.merge_state(*reversed(direct)))):
              if sorted(flat(merged)) != sorted(flat(full)):
                raise Violation('state-partition-wrong', f'{where}: {name} of the partition does not give back the full state')
              if [flat(a) for a in direct] != parts_before:
                raise Violation('state-partition-wrong', f'{where}: {name} changed the states it was given (the caller goes on using them)')
            if len(direct) > 1:
              # the partition is used once (update with all parts), then again
              # (no update when a raw array sits inside an immutable container: ValueError by design)
              if not W.model_array_in_container(m):
                nnx.update(r, *direct)
              if [flat(a) for a in direct] != parts_before:
                raise Violation('state-partition-wrong', f'{where}: nnx.update(node, *states) changed the states it was given')
              again_m = nnx.merge(nnx.graphdef(r), *direct)
              if W.canon_real(again_m) != W.canon_model(m):
                raise Violation('merge-not-isomorphic', f'{where}: merging graphdef + the same partition a second time does not rebuild the graph')
            pure = full.to_pure_dict()
            again = nnx.state(r)
            again.replace_by_pure_dict(pure)
            if flat(again) != flat(full):
              raise Violation('state-wrong', f'{where}: to_pure_dict / replace_by_pure_dict round trip changed the state')
            want_vars = [(p, l) for p, l in W.model_leaves(m) if isinstance(l, W.MVar) and W.filter_model(op['routes'][0], p, l)]
            got_vars = dict(W.flat_real_state(nnx.variables(r, rf[0])))
            # (a shared Variable is listed under each path that reaches it: only membership and identity are pinned down)
            rev = {id(h.real[i]): h.model[i] for i in h.vars}
            if any(got_vars.get(p) is not h.real[l.id] for p, l in want_vars) or any(id(v) not in rev or not W.filter_model(op['routes'][0], p, rev[id(v)]) for p, v in got_vars.items()):
              raise Violation('state-wrong', f'{where}: nnx.variables(node, f) does not return the node\'s own Variable objects that match f (first paths {[p for p, _ in want_vars]}, got {sorted(got_vars, key=repr)})')
            res.probe('state_routes_checked')
          log.add(oi, k, len(got))
        elif k == 'graphdef':
          gd = nnx.graphdef(r)
          c = nnx.clone(r)
          gd2 = nnx.graphdef(c)
          if gd != gd2 or hash(gd) != hash(gd2):
            raise Violation('graphdef-unstable', f'{where}: graphdef of an isomorphic clone compares or hashes differently')
          if op['edit']:
            c.extra_static_attr = 5
            if nnx.graphdef(c) == gd:
              raise Violation('graphdef-misses-edit', f'{where}: graphdef unchanged after adding a static attribute')
            gd5 = nnx.graphdef(c)
            c.extra_static_attr = 6
            if nnx.graphdef(c) == gd5:
              raise Violation('graphdef-misses-edit', f'{where}: graphdef unchanged after a static attribute changed its value')
            res.probe('graphdef_differs_after_edit')
          log.add(oi, k)
        elif k == 'keep':
          gd = nnx.graphdef(r)
          kept.append(dict(nid=nid, gd=gd, h=hash(gd), gd_copy=nnx.graphdef(nnx.clone(r)), state=nnx.state(r), leaves=[(p, l.id if isinstance(l, W.MVar) else None, W.leaf_rec_model(l), dict(l.meta) if isinstance(l, W.MVar) else None) for p, l in W.model_leaves(m)]))
          log.add(oi, k)
        elif k == 'update' and op['how'] == 'restore_kept':
          # restore a snapshot taken earlier in the history: values AND metadata of every Variable go back to the
          # snapshot (keys acquired since are gone), identities stay
          cands = [c for c in kept if c['nid'] == nid]
          if not cands:
            continue
          c = cands[-1]
          now = [(p, l.id if isinstance(l, W.MVar) else None) for p, l in W.model_leaves(m)]
          if now != [(p, i) for p, i, _, _ in c['leaves']]:
            continue  # the structure changed since: a different (unpinned) question
          if W.model_array_in_container(m):
            continue  # a raw array inside an immutable container cannot be written back (ValueError by design)
          nnx.update(r, c['state'])
          for (p, l), (_, _, rec, meta) in zip(W.model_leaves(m), c['leaves']):
            if isinstance(l, W.MVar):
              l.value = np.frombuffer(rec[2][2], dtype=rec[2][0]).reshape(rec[2][1]).copy()
              l.meta = dict(meta)
            else:
              parent = m
              for key in p[:-1]:
                parent = parent.attrs[key][1]
              parent.attrs[p[-1]] = ('array', np.frombuffer(rec[3], dtype=rec[1]).reshape(rec[2]).copy())
          res.probe('snapshot_restored')
          log.add(oi, k, 'restore_kept')
        elif k == 'update':
          if W.model_array_in_container(m):
            continue  # a raw array inside an immutable container cannot be written back (ValueError by design)
          how = op['how']
          d = float(op['delta'])
          leaves = W.model_leaves(m)
          if how == 'foreign':
            src = nnx.clone(r)
            st = nnx.state(src)
            st = jax.tree.map(lambda x: np.asarray(np.asarray(x) + np.float32(d)), st)
            sel = leaves
            res.probe('update_foreign')
            states = [st]
          elif how == 'partial':
            f = op['filt']
            st = nnx.state(r, W.filter_real(f))
            st = jax.tree.map(lambda x: np.asarray(np.asarray(x) + np.float32(d)), st)
            sel = [(p, l) for p, l in leaves if W.filter_model(f, p, l)]
            states = [st]
          elif how == 'two_states':
            f = op['filt']
            try:
              a, b = nnx.state(r, W.filter_real(f), ...)
            except ValueError:
              continue
            a = jax.tree.map(lambda x: np.asarray(np.asarray(x) + np.float32(d)), a)
            b = jax.tree.map(lambda x: np.asarray(np.asarray(x) + np.float32(d)), b)
            sel = leaves
            states = [a, b]
          else:
            st = jax.tree.map(lambda x: np.asarray(np.asarray(x) + np.float32(d)), nnx.state(r))
            sel = leaves
            states = [st]
          nnx.update(r, *states)
          for p, l in sel:
            if isinstance(l, W.MVar):
              l.value = l.value + np.float32(d)
            else:
              # a raw array attribute is replaced by the state's array
              parent = m
              for key in p[:-1]:
                parent = parent.attrs[key][1]
              parent.attrs[p[-1]] = ('array', l[1] + np.float32(d))
          log.add(oi, k, how, len(sel))
        elif k == 'pop':
          fs = op['filters']
          occ = W.model_occurrences(m)
          nocc = {}
          for p, l, parent in occ:
            nocc[l.id] = nocc.get(l.id, 0) + 1
          sel = []
          ok = True
          for p, l in W.model_leaves(m):
            if not isinstance(l, W.MVar) and any(W.filter_model(f, p, l) for f in fs):
              ok = False  # raw arrays are node leaves too; popping them is not part of the claim
          groups = {}
          for p, l, parent in occ:
            hit = next((i for i, f in enumerate(fs) if W.filter_model(f, p, l)), None)
            groups.setdefault(l.id, []).append((hit, p, l, parent))
          for lid, g_ in groups.items():
            hits = {h_ for h_, _, _, _ in g_}
            if hits == {None}:
              continue
            if any(parent.kind != 'module' for _, _, _, parent in g_):
              ok = False  # Variable inside a plain container: pop refuses those, not pinned down by the property
              break
            if len(g_) > 1 and (None in hits or len(hits) > 1):
              ok = False  # a shared Variable that path-dependent filters select under some of its paths only: not pinned down
              break
            sel.extend(g_)
          if not ok:
            continue
          out = nnx.pop(r, *[W.filter_real(f) for f in fs])
          states = [out] if len(fs) == 1 else list(out)
          shared_popped = False
          for i, st in enumerate(states):
            got = sorted(((p, W.leaf_rec_real(v)) for p, v in W.flat_real_state(st)), key=lambda x: repr(x[0]))
            # a Variable reachable under several paths is listed once, under one of them; the others exactly where they sit
            want_exact = sorted(((p, W.leaf_rec_model(l)) for hit, p, l, _ in sel if hit == i and len(groups[l.id]) == 1), key=lambda x: repr(x[0]))
            want_any = [({p for _, p, _, _ in groups[lid]}, W.leaf_rec_model(groups[lid][0][2])) for lid in sorted({l.id for hit, _, l, _ in sel if hit == i and len(groups[l.id]) > 1})]
            rest = [x for x in got if x not in want_exact]
            matched = 0
            for paths, rec in want_any:
              m_ = [x for x in rest if x[0] in paths and x[1] == rec]
              if len(m_) == 1:
                matched += 1
                rest.remove(m_[0])
            if [x for x in got if x in want_exact] != want_exact or matched != len(want_any) or rest:
              raise Violation('pop-wrong', f'{where}: pop returned {[p for p, _ in got]} for filter #{i}, expected {[p for p, _ in want_exact]} plus one path each of {[sorted(ps) for ps, _ in want_any]}')
            shared_popped = shared_popped or bool(want_any)
          for hit, p, l, parent in sel:
            del parent.attrs[p[-1]]
          if shared_popped:
            res.probe('pop_shared_variable')
          if sel:
            res.probe('pop_done')
          log.add(oi, k, len(sel))
        elif k == 'clone':
          c = nnx.clone(r)
          cc, cm = W.canon_real(c), W.canon_model(m)
          if cc != cm:
            raise Violation('clone-not-isomorphic', f'{where}: clone = {W._short(cc)} but g = {W._short(cm)}')
          if set(W.real_objects(c)) & set(W.real_objects(r)):
            raise Violation('clone-shares-objects', f'{where}: clone shares mutable objects with the original')
          # mutate the clone: the original must not notice (checked by the global invariant below)
          for o in W.real_objects(c).values():
            if isinstance(o, nnx.Variable):
              o.value = o.value + 100
              break
          log.add(oi, k)
        elif k == 'iter_graph':
          seen_ids = []
          var_ids = set()
          for path, val in nnx.iter_graph(r):
            if isinstance(val, nnx.Object):
              seen_ids.append(id(val))  # graph nodes: exactly once
            elif isinstance(val, nnx.Variable):
              var_ids.add(id(val))  # Variables are leaves: yielded once per referencing attribute
          reach = W.model_reachable(m)
          want_ids = sorted(id(h.real[i]) for i, x in reach.items() if isinstance(x, W.MNode) and x.kind == 'module')
          want_vars = {id(h.real[i]) for i, x in reach.items() if isinstance(x, W.MVar)}
          if sorted(seen_ids) != want_ids or var_ids != want_vars:
            raise Violation('iter-graph-wrong', f'{where}: iter_graph visited {len(seen_ids)} nodes ({len(set(seen_ids))} distinct) and {len(var_ids)} Variables, reachable are {len(want_ids)} nodes and {len(want_vars)} Variables')
          log.add(oi, k, len(seen_ids))
        else:
          raise kernel.HarnessError('unknown op ' + k)
      if plan['knobs']['gc_every'] and oi % plan['knobs']['gc_every'] == 0:
        gc.collect()
        res.fault('gc')
      # global invariant: every root still equals its mirror and consists of the caller's own objects
      for nid in h.nodes:
        h.check_root(nid, f'after op {oi} {k}')
      # a GraphDef is an immutable value: whatever happened to the graph it was taken from, it still equals the
      # copy taken at the same moment and hashes as it did
      for c in kept:
        if c['gd'] != c['gd_copy'] or hash(c['gd']) != c['h']:
          raise Violation('graphdef-changed', f'after op {oi} {k}: a GraphDef obtained earlier changed (no longer equal to the copy taken at the same time, or its hash moved)')
  except Violation as v:
    viol = dict(kind=v.kind, detail=v.detail)
  except kernel.HarnessError:
    raise
  except RecursionError:
    raise
  except Exception as e:  # noqa: BLE001
    if not kernel.through_sut(e):
      raise
    viol = dict(kind='unexpected-exception', detail=f'op {oi} {op.get("op")}: {type(e).__name__}: {str(e)[:400]}')
  res.steps = len(plan['ops'])
  res.ops = len(plan['ops'])
  res.digest = log.digest()
  res.nontrivial = api_ops >= 3 or any(res.probes.get(p) for p in ('shared_variable', 'shared_or_cyclic_node', 'self_reference'))
  res.violation = viol
  return res
