"""C11 - checkpoint directory survives crashes; retention and step ordering are exact.

fsworld, legacy msgpack back-end: the real save_checkpoint / restore_checkpoint /
latest_checkpoint / available_steps / AsyncManager / flax.io / serialization run against the
in-memory SimDisk (both io modes), with crashes (incl. torn writes), I/O errors, restarts,
retries, exhaustive crash sweeps of sampled saves, and asynchronous saves under the thread
scheduler.  The Orbax back-end runs in sim/props/c11_orbax.py on a real scratch directory.
"""
from __future__ import annotations

import math

from sim import kernel
from sim.kernel import Result, Violation, stream

PROP = 'C11'
TIERS = {
  'quick': dict(runs=7000, deadline=45, workers=16),
  'thorough': dict(runs=700000, deadline=800, workers=16),
}
SELFTEST_RUNS = 300
RULE = (
  'each run = one history (<= 12 ops) on one checkpoint directory generated from the run seed: saves with steps from a '
  'per-history pool (ints, negatives, floats, exponent notation), keep 1..4, keep_every_n_steps, overwrite, prefix; '
  'restore / latest / available_steps / foreign files; in fault-injecting runs a crash (optionally with a torn write), '
  'an I/O error, or an exhaustive crash sweep of one save (every file operation x every torn variant, each followed by '
  'restart, post-crash checks and a retry); asynchronous runs put the save on a simulated worker thread whose disk '
  'operations interleave with the main thread under the seeded scheduler. Fault-free and fault-injecting runs are '
  'separate configurations. Non-trivial = a fault fired, or >= 3 saves completed; distinct = distinct event-log digest.'
)
STEP_UNIT = 'mutating file operations on the simulated disk plus scheduler steps'
COMPONENTS = {
  'real': ['flax/training/checkpoints.py (save_checkpoint, restore_checkpoint, latest_checkpoint, available_steps, AsyncManager, retention)', 'flax/io.py (both io modes)', 'flax/serialization.py (msgpack, chunking with randomised MAX_CHUNK_SIZE)', 'orbax + flax/training/orbax_utils.py (Orbax back-end sub-engine, real scratch directory)'],
  'stub': ['os/shutil/open/glob under flax.io -> SimDisk (io_mode DEFAULT)', 'tensorflow.io.gfile under flax.io -> SimGFile over SimDisk raising real tf.errors (io_mode TF)', 'concurrent.futures.thread under checkpoints.py -> SimThreadPoolExecutor on the seeded scheduler'],
}
ASSUMPTIONS = [
  'crash model = process death: completed file operations persist, the in-flight one did not happen or (write) left a prefix; power-loss (un-fsynced data loss) is outside the property and not modelled',
  'SimDisk/SimGFile semantics match os / tensorflow.io.gfile on the operations flax uses (differentially tested by sim/selftests.py against a real directory)',
  'two spellings of one number and prefixes that are prefixes of each other are not generated (corners the property does not pin down)',
  'with overwrite=True a crash in the middle of removing several newer steps may leave an intermediate newer step as latest; the oracle then requires latest to be a complete previously committed step (narrow reading, see DESIGN.md)',
  'prefixes containing glob metacharacters are generated for the legacy back-end only (tensorstore cannot open a directory whose name contains "["; that is below flax)',
  'save_checkpoint_multiprocess is covered on one host without multi-process arrays only; multi-host arrays, GCS paths, Orbax AsyncCheckpointer are not covered',
]
PROBES = ['legacy_checkpoint_in_orbax_dir', 'orbax_debris_in_legacy_dir', 'step0_with_keep_every', 'async_save_failed_with_ioerror', 'entry_multiprocess', 'legacy_debris_in_orbax_dir', 'source_mutated_after_async_save', 'restore_by_path', 'orbax_histories', 'leftover_tmp_after_crash', 'crash_after_commit', 'crash_before_commit', 'retry_rejected_committed', 'overwrite_removed_newer', 'keep_every_retained', 'chunked_leaf', 'async_latest_in_flight', 'sweep_points', 'policy_error_expected', 'torn_write', 'ioerror_runs']

GOOD_PREFIXES = ['checkpoint_', 'ckpt', 'a_b_', 'run1_', 'model.x']
BAD_PREFIXES = ['m-', 'v2.', 'run1']  # end in '-', '.', digit: were glued to the step before fix 943634b
GLOB_PREFIXES = ['run[1]_', 'x*y_', 'q?_']  # glob metacharacters: the listing sites matched the prefix as a PATTERN before the repair
DIRS = ['/sim/run-3/x7', '/sim/ckpts', '/sim/a.b/e-1']
ORBAX_TMP = '.orbax-checkpoint-tmp'
ORBAX_SHARE = 0.04  # of histories; an Orbax history costs ~15x a legacy one, so roughly a third of the wall time
SCRATCH = None
_COUNTER = [0]
LAST_FAULT = [None]
EMPTY_OK = [True]  # Orbax refuses zero-size arrays (its documented limitation, not part of C11)


def setup_worker(w, tier):
  global np, jax, jnp, fio, checkpoints, serialization, config, struct, tf_errors, D, S, St, ml_dtypes
  import sim.jaxcompat as jc

  jc.import_flax()
  import warnings

  import numpy as np
  import jax
  import jax.numpy as jnp
  import ml_dtypes
  import flax.io as fio
  from flax.training import checkpoints
  from flax import serialization, config, struct
  from tensorflow import errors as tf_errors
  from sim import disk as D
  from sim import sched as S
  from absl import logging as alog

  alog.set_verbosity(alog.FATAL)
  import logging as _pl
  _pl.getLogger('absl').setLevel(_pl.CRITICAL)
  _pl.getLogger().setLevel(_pl.CRITICAL)
  warnings.simplefilter('ignore')
  import os, tempfile, threading

  _hook = threading.excepthook

  def quiet(args):  # threads of a 'crashed process' die with SimCrash: that is the simulation, not noise worth printing
    if args.exc_type is not None and issubclass(args.exc_type, D.SimCrash):
      return
    _hook(args)

  threading.excepthook = quiet
  global SCRATCH
  SCRATCH = os.environ.get('VERIF_WORKER_SCRATCH') or tempfile.mkdtemp(prefix='verif-c11-')
  os.makedirs(SCRATCH, exist_ok=True)

  @struct.dataclass
  class St:
    w: object
    n: object
    tag: str = struct.field(pytree_node=False, default='x')


# --------------------------------------------------------------------------
# generation


def _pool(g, style):
  if style == 'int':
    vals = g.sample(range(0, 40), 8)
  elif style == 'neg':
    vals = g.sample(range(-20, 20), 8)
  elif style == 'float':
    vals = g.sample([0.5, 1.5, 2.25, 3.0, 7.75, 10.0, 12.5, 20.0, 100.0, -1.5, -0.25], 8)
  elif style == 'exp':
    vals = g.sample([1e-05, 3e-05, 0.0001, 0.5, 2500.0, 1e16, 7.0, 2e-07, 1.5e20, 33.0], 8)
  else:
    vals = g.sample([1, 2, 3, 10, 11, 0.5, 2.5, 10.5, -4, -0.5, 1e-05, 300.0, 1e16], 8)
  return vals


def generate(rs, tier):
  g = stream(rs, 'gen')
  faults = g.random() < 0.6
  style = g.choice(['int', 'int', 'neg', 'float', 'exp', 'mixed'])
  pool = _pool(g, style)
  asyn = g.random() < 0.25
  bad_prefix = g.random() < 0.15
  knobs = dict(
    backend='legacy',
    io_mode=g.choice(['TF', 'DEFAULT']),
    chunk=g.choice([1, 7, 64, 2**30]),
    dir=g.choice(DIRS),
    prefix=g.choice(BAD_PREFIXES) if bad_prefix else (g.choice(GLOB_PREFIXES) if g.random() < 0.07 else g.choice(GOOD_PREFIXES)),
    listdir_seed=g.getrandbits(16),
    faults=faults,
    asyn=asyn,
    pool=pool,
    stay_bias=g.choice([0.0, 0.5]),
    # the second public save entry point (single host, no multi-process arrays): same promises, its own code path
    entry='save_checkpoint_multiprocess' if g.random() < 0.12 else 'save_checkpoint',
  )
  if g.random() < float(__import__('os').environ.get('VERIF_ORBAX_SHARE', ORBAX_SHARE)):  # env override: diagnostics only
    knobs.update(backend='orbax', io_mode='DEFAULT', asyn=False, chunk=2**30)
    if knobs['prefix'] in GLOB_PREFIXES:
      # tensorstore cannot open a path containing '[' (restore of a step that flax lists and retains correctly fails inside
      # Orbax with NOT_FOUND): outside flax, so such prefixes are used with the legacy back-end only
      knobs['prefix'] = 'checkpoint_'
    asyn = False
    # the directory may have been used with the legacy back-end before: an interrupted legacy save leaves <prefix>tmp
    knobs['legacy_debris'] = g.random() < 0.3
    # ... and may still hold a committed legacy (msgpack file) checkpoint at one of the steps of this history
    if g.random() < 0.35:
      knobs['legacy_ckpt'] = dict(step=g.choice(sorted(pool)[:3]), tmpl=g.randrange(4))
  every_hist = g.choice([None, None, 2, 3, 5])
  # (step 0 stays in the pool also with keep_every_n_steps: the first retained-by-spacing checkpoint may be step 0,
  #  which the retention loop skipped before fix "keep_every_n_steps never retained step 0")
  if knobs['backend'] == 'legacy' and g.random() < 0.12:
    # the directory was used with the Orbax back-end before: an interrupted Orbax save / removal left a temporary
    # directory '<prefix><step>.orbax-checkpoint-tmp[-deleting]' for a step that was never committed
    knobs['orbax_debris'] = dict(step=g.choice(sorted(pool)[2:] or pool), deleting=g.random() < 0.3)
  ops = []
  nops = g.randrange(3, 13) if knobs['backend'] == 'legacy' else g.randrange(2, 8)
  # saves mostly ascend so that histories make progress; some go back / repeat to hit the policy errors
  order = sorted(pool)
  cur = 0
  swept = False
  for _ in range(nops):
    r = g.random()
    if r < 0.62:
      if g.random() < 0.75 and cur < len(order):
        step = order[cur]
        cur += 1
      else:
        step = g.choice(pool)
      op = dict(op='save', step=step, keep=g.choice([1, 1, 2, 2, 3, 4]), every=every_hist if g.random() < 0.8 else None, overwrite=g.random() < 0.25, tmpl=g.randrange(4))
      if faults and g.random() < 0.45:
        fk = g.random()
        if fk < (0.2 if knobs['backend'] == 'legacy' else 0.06) and not swept and not asyn:
          op['sweep'] = True
          swept = True
        elif fk < 0.75 or (asyn and fk < 0.9):
          op['fault'] = dict(kind='crash', at=g.randrange(0, 64), torn=g.choice([None, 'one', 0.5, 'allbutone']))
        else:
          op['fault'] = dict(kind='ioerror', at=g.randrange(0, 64), torn=g.choice([None, 0.5]), err=g.choice(['EIO', 'ENOSPC']))
      ops.append(op)
      if 'fault' in op and g.random() < 0.6:
        ops.append(dict(op='retry'))
      if asyn and g.random() < 0.5:
        ops.append(dict(op='latest'))
      if asyn and g.random() < 0.3:
        ops.append(dict(op='wait'))
    elif r < 0.74:
      ops.append(dict(op='restore', which=g.randrange(8), target=g.random() < 0.5, parallel=g.random() < 0.5))
    elif r < 0.84:
      ops.append(dict(op='latest'))
    elif r < 0.92:
      ops.append(dict(op='available'))
    else:
      ops.append(dict(op='foreign', name=g.choice(['notes.txt', 'other_7', 'zz', 'tmp', 'Checkpoint_9', 'x_checkpoint_3']), isdir=g.random() < 0.3))
  return dict(engine='fsworld', knobs=knobs, ops=ops, schedule_seed=g.getrandbits(48))


SHRINK_LISTS = ['ops']


def simplify(plan):
  k = plan['knobs']
  sch = plan.get('schedule')
  if sch:
    yield dict(plan, schedule=[])
    yield dict(plan, schedule=sch[: len(sch) // 2])
    nz = [i for i, c in enumerate(sch) if c]
    for i in nz[:40]:
      c = list(sch)
      c[i] = 0
      yield dict(plan, schedule=c)
  if k['asyn']:
    yield dict(plan, knobs=dict(k, asyn=False))
  if k.get('entry') == 'save_checkpoint_multiprocess':
    yield dict(plan, knobs=dict(k, entry='save_checkpoint'))
  if k['chunk'] != 2**30:
    yield dict(plan, knobs=dict(k, chunk=2**30))
  if k['io_mode'] != 'DEFAULT':
    yield dict(plan, knobs=dict(k, io_mode='DEFAULT'))
  if k['dir'] != '/sim/ckpts':
    yield dict(plan, knobs=dict(k, dir='/sim/ckpts'))
  if k['prefix'] not in ('checkpoint_',) and k['prefix'] in GOOD_PREFIXES + GLOB_PREFIXES[1:]:
    yield dict(plan, knobs=dict(k, prefix='checkpoint_'))
  for i, op in enumerate(plan['ops']):
    if op['op'] != 'save':
      continue

    def rep(**kw):
      ops = list(plan['ops'])
      ops[i] = {**op, **kw}
      return dict(plan, ops=ops)

    if op.get('sweep'):
      yield rep(sweep=False)
    if op.get('fault') and op['fault'].get('torn') is not None:
      yield rep(fault=dict(op['fault'], torn=None))
    if op.get('fault') and op['fault']['at'] > 0:
      yield rep(fault=dict(op['fault'], at=op['fault']['at'] - 1))
    if op['tmpl'] != 0:
      yield rep(tmpl=0)
    if op['every'] is not None:
      yield rep(every=None)
    if op['keep'] > 1:
      yield rep(keep=op['keep'] - 1)
    if op['overwrite']:
      yield rep(overwrite=False)


def teardown_worker():
  import shutil

  if SCRATCH:
    shutil.rmtree(SCRATCH, ignore_errors=True)


def signature(plan, v):
  k = plan['knobs']
  faulted = [o for o in plan['ops'] if o['op'] == 'save' and (o.get('fault') or o.get('sweep'))]
  lf = v.get('last_fault') or {}
  return dict(
    backend=k['backend'],
    bad_prefix=k['prefix'] in BAD_PREFIXES,
    glob_prefix=k['prefix'] in GLOB_PREFIXES,
    any_fault=bool(faulted),
    overwrite_faulted=bool(lf.get('overwrite')),
    fault_site=lf.get('site'),
    step_existed=bool(lf.get('existed')),
  )


# --------------------------------------------------------------------------
# trees


def make_tree(idx, tmpl):
  """Deterministic tree, unique by idx; four templates exercise containers, dtypes, chunking."""
  v = float(idx + 1)
  if tmpl == 0:
    return {'a': np.arange(6, dtype=np.float32).reshape(2, 3) + v}
  if tmpl == 1:
    return {
      'a': np.full((3,), v, np.float32),
      'b': {'c': np.array(idx, np.int32), 'd': (np.ones(4, np.float32) * (idx % 64)).astype(ml_dtypes.bfloat16)},
      'l': [np.arange(5, dtype=np.int8) + np.int8(idx % 100), np.zeros((0 if EMPTY_OK[0] else 1,), np.float32)],
    }
  if tmpl == 2:
    return {'s': St(w=np.ones(2, np.float64) * v, n=np.array(idx, np.int64)), 'z': np.array([idx % 251], np.uint8)}
  return {'big': np.arange(64, dtype=np.float32) * v, 'k': {'x': np.array([[idx]], np.int16)}}


def state_dict(t):
  if isinstance(t, dict):
    return {str(k): state_dict(v) for k, v in t.items()}
  if isinstance(t, (list, tuple)):
    return {str(i): state_dict(v) for i, v in enumerate(t)}
  if hasattr(t, '__dataclass_fields__'):
    return {'w': state_dict(t.w), 'n': state_dict(t.n)}
  return t


def same(a, b, typed=False):
  """Structural + byte equality (dtype, shape, bytes); with typed=True also container types."""
  if isinstance(b, dict):
    if not isinstance(a, dict) and not (hasattr(a, 'keys') and not typed):
      return False
    if sorted(a.keys()) != sorted(b.keys()):
      return False
    return all(same(a[k], b[k], typed) for k in b)
  if isinstance(b, (list, tuple)):
    if type(a) is not type(b) or len(a) != len(b):
      return False
    return all(same(x, y, typed) for x, y in zip(a, b))
  if hasattr(b, '__dataclass_fields__'):
    if type(a) is not type(b):
      return False
    return same(a.w, b.w, typed) and same(a.n, b.n, typed) and a.tag == b.tag
  try:
    x, y = np.asarray(a), np.asarray(b)
  except Exception:  # noqa: BLE001
    return False
  return x.dtype == y.dtype and x.shape == y.shape and x.tobytes() == y.tobytes()


def policy(steps, new, keep, every, overwrite):
  """From-scratch statement of the retention rule (DESIGN.md C11 reference model)."""
  s = set(steps) | {new}
  if overwrite:
    s = {x for x in s if x <= new}
  order = sorted(s)
  if len(order) <= keep:
    return s
  kept = set(order[-keep:])
  last = -math.inf
  for x in order[:-keep]:
    if every and (x - last) >= every:
      kept.add(x)
      last = x
  return kept


# --------------------------------------------------------------------------
# world


class World:
  def __init__(self, plan, res, log, disk=None, model=None, chooser=None, sub=False):
    self.plan, self.res, self.log = plan, res, log
    k = self.k = plan['knobs']
    self.prefix, self.pool = k['prefix'], k['pool']
    self.backend = k['backend']
    if disk is None:
      if self.backend == 'orbax':
        _COUNTER[0] += 1
        disk = D.RealDisk(SCRATCH, f'h{_COUNTER[0]}')
      else:
        disk = D.SimDisk(k['listdir_seed'])
    self.disk = disk
    self.dir = disk.map(k['dir'])
    self.model = dict(model or {})  # step -> (idx, tmpl)
    self.sub = sub
    self.asyn = k['asyn'] and not sub
    self.chooser = chooser
    self.sched = None
    self.am = None
    self.pending = None
    self.last_faulted = None
    self.foreign = {}
    self.completed = []  # save ops that completed, for the async==sync comparison
    self.had_fault = False
    self.nsaves = 0
    self.restore_io = None
    self.idx = 0
    self.debris_ok = False
    self.model_at_fault = {}
    self.int_steps = all(isinstance(s, int) for s in self.pool)
    self.names = {self.prefix + str(s): s for s in self.pool}
    if k.get('legacy_debris') and not sub and model is None:
      self.disk.put_file(self.dir + '/' + self.prefix + 'tmp', b'torn legacy checkpoint')
      res.probe('legacy_debris_in_orbax_dir')
    od = k.get('orbax_debris')
    if od and not sub and model is None:
      self.disk.put_file(f"{self.dir}/{self.prefix}{od['step']}{ORBAX_TMP}{'-deleting' if od['deleting'] else '-1700000000'}/_METADATA", b'{}')
      res.probe('orbax_debris_in_legacy_dir')

  # -- plumbing
  def install(self):
    self.restore_io = self.disk.install(fio, self.k['io_mode'], tf_errors)
    self.new_process()

  def new_process(self):
    if self.sched is not None:
      self.sched.shutdown()
    self.sched = S.Sched(chooser=self.chooser, step_cap=50000)
    self.disk.sched = self.sched
    self.real_thread = getattr(self, 'real_thread', checkpoints.thread)
    checkpoints.thread = S.SimExecutorModule(self.sched)
    self.am = checkpoints.AsyncManager() if self.asyn else None
    self.pending = None

  def uninstall(self):
    steps = 0
    if self.sched is not None:
      self.sched.shutdown()
      steps = self.sched.steps
      self.sched = None
    checkpoints.thread = self.real_thread
    if self.restore_io:
      self.restore_io()
      self.restore_io = None
    return steps

  def path(self, step):
    return f'{self.dir}/{self.prefix}{step}'

  def tree_of(self, ent):
    return make_tree(*ent)

  # -- observation helpers (harness reads the disk directly, never through flax)
  def listing(self):
    return [n for n in self.disk.listdir(self.dir) if n.startswith(self.prefix)]

  def is_debris(self, n):
    if self.backend == 'legacy':
      return n == self.prefix + 'tmp' or (bool(self.k.get('orbax_debris')) and ORBAX_TMP in n)
    return ORBAX_TMP in n or (bool(self.k.get('legacy_debris')) and n == self.prefix + 'tmp')

  # -- oracle (a): after a completed save / at quiescence
  def check_complete(self, where):
    names = self.listing()
    if self.debris_ok or self.backend == 'orbax':
      # an interrupted save may leave its temporary file behind until the next save completes (legacy);
      # Orbax temporary directories are not checkpoints and nobody promises to collect them
      names = [n for n in names if not self.is_debris(n)]
    elif self.k.get('orbax_debris'):
      names = [n for n in names if ORBAX_TMP not in n]  # never a checkpoint by flax's own listing rule; nobody collects it
    want = sorted(self.prefix + str(s) for s in self.model)
    if sorted(names) != want:
      extra = sorted(set(names) - set(want))
      missing = sorted(set(want) - set(names))
      raise Violation('retention-mismatch', f'{where}: directory holds {sorted(names)}, policy promises {want} (extra {extra}, missing {missing})')
    lat = checkpoints.latest_checkpoint(self.dir, self.prefix)
    want_lat = self.path(max(self.model)) if self.model else None
    if lat != want_lat:
      raise Violation('latest-wrong', f'{where}: latest_checkpoint={lat}, numerically largest step is {want_lat}')
    if self.model:
      st = int if self.int_steps else float
      av = checkpoints.available_steps(self.dir, self.prefix, step_type=st)
      if av != [st(s) for s in sorted(self.model)]:
        raise Violation('available-steps-wrong', f'{where}: available_steps={av}, expected {sorted(self.model)}')
    for s, ent in sorted(self.model.items()):
      if ent is not None:
        self.check_restore(s, ent, where, target=(self.idx + s.__hash__()) % 2 == 0, parallel=False)
    if self.model and self.model[max(self.model)] is not None:
      r = checkpoints.restore_checkpoint(self.dir, None, prefix=self.prefix, parallel=self.idx % 3 == 0)
      if not same(r, state_dict(self.tree_of(self.model[max(self.model)]))):
        raise Violation('restore-latest-wrong', f'{where}: restore_checkpoint(latest) is not the tree saved at step {max(self.model)}')
    self.check_foreign(where)

  def check_restore(self, s, ent, where, target=False, parallel=True):
    t = self.tree_of(ent)
    self.nrestore = getattr(self, 'nrestore', 0) + 1
    # the three ways to address a checkpoint: directory + step, directory given as a pathlib path, the checkpoint path itself
    how = self.nrestore % 3
    import pathlib

    d = pathlib.PurePosixPath(self.dir) if how == 1 else self.dir
    kw = dict(step=s, prefix=self.prefix)
    if how == 2:
      d, kw = self.path(s), dict(prefix=self.prefix)
      self.res.probe('restore_by_path')
    try:
      if target:
        tmplt = make_tree(ent[0] + 1000, ent[1])
        r = checkpoints.restore_checkpoint(d, tmplt, parallel=parallel, **kw)
        ok = same(r, t, typed=True)
      else:
        r = checkpoints.restore_checkpoint(d, None, parallel=parallel, **kw)
        ok = same(r, state_dict(t))
    except D.SimCrash:
      raise
    except Exception as e:  # noqa: BLE001
      raise Violation('retained-step-unrestorable', f'{where}: restore of retained step {s} raised {type(e).__name__}: {e}')
    if not ok:
      raise Violation('restore-mismatch', f'{where}: restore of step {s} (target={target}) differs from the tree saved at that step')

  def check_foreign(self, where):
    d = self.disk
    for name, (isdir, data) in self.foreign.items():
      p = self.dir + '/' + name
      if isdir:
        if d.get_file(p + '/inner') != data:
          raise Violation('foreign-entry-damaged', f'{where}: directory {name} (not carrying the prefix) was removed or changed')
      elif d.get_file(p) != data:
        raise Violation('foreign-entry-damaged', f'{where}: file {name} (not carrying the prefix) was removed or changed')

  # -- oracle (b): after an interrupted save (crash + restart, or I/O error)
  def after_interruption(self, op, ent_new, before, where):
    S_ = op['step']
    names = self.listing()
    listed = {}
    for n in names:
      if self.is_debris(n):
        self.res.probe('leftover_tmp_after_crash')
        continue
      if n not in self.names:
        raise Violation('garbage-entry', f'{where}: unexpected entry {n} after interrupted save')
      listed[self.names[n]] = n
    new_model = {}
    bad = {}
    for s in sorted(listed):
      try:
        r = checkpoints.restore_checkpoint(self.dir, None, step=s, prefix=self.prefix, parallel=False)
      except D.SimCrash:
        raise
      except Exception as e:  # noqa: BLE001
        bad[s] = ('listed-step-unrestorable', f'{where}: step {s} is listed after the interruption but restore raised {type(e).__name__}: {str(e)[:300]}')
        continue
      ok_new = s == S_ and same(r, state_dict(self.tree_of(ent_new)))
      ok_old = before.get(s) is not None and same(r, state_dict(self.tree_of(before[s])))
      if not (ok_new or ok_old):
        if before.get(s, 0) is None:
          new_model[s] = None  # was already a half-deleted entry before this save
          continue
        bad[s] = ('listed-step-corrupt', f'{where}: step {s} restores to neither the tree previously saved there nor the new one')
        continue
      new_model[s] = ent_new if ok_new else before[s]
    pol = policy(before, S_, op['keep'], op['every'], op['overwrite'])
    # Orbax accepts a step older than the latest; with a small `keep` the policy then discards the new step itself
    self_discard = S_ not in pol
    committed = (S_ in new_model and new_model[S_] == ent_new) or (self_discard and S_ in listed)
    maybe_committed = committed or (self_discard and S_ not in listed)
    self.res.probe('crash_after_commit' if committed else 'crash_before_commit')
    missing = set(before) - set(listed)
    allowed = (set(before) - pol) if maybe_committed else set()
    for s, (kind, detail) in sorted(bad.items()):
      # a directory checkpoint that the policy was deleting when the process died may be half gone; it is
      # tolerated (kept in the model as an unreadable entry) unless it is what latest_checkpoint returns
      if self.backend == 'orbax' and (((s in allowed or (s == S_ and self_discard)) and s != max(listed)) or before.get(s, 0) is None):
        new_model[s] = None
        self.res.probe('half_deleted_old_step')
        continue
      raise Violation(kind, detail)
    if S_ in before and before[S_] is not None and S_ not in new_model:
      raise Violation('overwritten-step-lost', f'{where}: step {S_} existed before the interrupted overwrite and now holds neither the old nor the new checkpoint')
    if not maybe_committed and missing:
      raise Violation('lost-checkpoint-before-commit', f'{where}: steps {sorted(missing)} disappeared although the new checkpoint was not committed')
    if maybe_committed:
      if missing - allowed:
        raise Violation('lost-checkpoint', f'{where}: steps {sorted(missing - allowed)} disappeared but the policy retains them')
    lat = checkpoints.latest_checkpoint(self.dir, self.prefix)
    want = self.path(max(listed)) if listed else None
    if lat is not None and lat.endswith(self.prefix + 'tmp'):
      raise Violation('latest-is-temporary', f'{where}: latest_checkpoint returned the temporary file {lat}')
    if lat != want:
      raise Violation('latest-wrong', f'{where}: latest_checkpoint={lat}, numerically largest complete step is {want}')
    if listed and not op['overwrite']:
      ok = {S_} | ({max(before)} if before else set())
      if max(listed) not in ok:
        raise Violation('latest-not-old-or-new', f'{where}: latest step {max(listed)} is neither the previous latest nor the new step {S_}')
    if listed and new_model[max(listed)] is not None:
      r = checkpoints.restore_checkpoint(self.dir, None, prefix=self.prefix)
      if not same(r, state_dict(self.tree_of(new_model[max(listed)]))):
        raise Violation('restore-latest-wrong', f'{where}: restore_checkpoint(latest) after the interruption is not a complete old-or-new tree')
    self.check_foreign(where)
    self.model = new_model  # re-synchronise: the observed listing is a legal state by the checks above
    self.debris_ok = True
    return committed

  # -- saves
  def expect_error(self, step, overwrite):
    if overwrite:
      return False
    if step in self.model:
      return True
    if self.backend == 'orbax':
      return False
    return any(s > step for s in self.model)  # legacy back-end rejects every step older than the latest

  def raw_save(self, op, ent, am=None):
    import pathlib

    d = pathlib.PurePosixPath(self.dir) if (ent[0] % 4 == 1) else self.dir
    tree = self.tree_of(ent)
    try:
      save = checkpoints.save_checkpoint
      if self.k.get('entry') == 'save_checkpoint_multiprocess':
        save = checkpoints.save_checkpoint_multiprocess
        self.res.probe('entry_multiprocess')
      return save(
        d, tree, op['step'], prefix=self.prefix, keep=op['keep'], overwrite=op['overwrite'], keep_every_n_steps=op['every'], async_manager=am
      )
    finally:
      if am is not None:
        # the caller goes on training: it overwrites its arrays in place as soon as save_checkpoint has returned
        # (the checkpoint must hold the values of the moment of the call)
        for leaf in jax.tree_util.tree_leaves(tree):
          if isinstance(leaf, np.ndarray) and leaf.size and leaf.flags.writeable:
            leaf += leaf.dtype.type(1)
        self.res.probe('source_mutated_after_async_save')

  def measure(self, op, ent):
    """Number of mutating file operations of this save, measured on a copy-on-write clone of the disk."""
    w = World(self.plan, Result(), kernel.Log(), disk=self.disk.clone(), model=self.model, chooser=S.Chooser(schedule=[]), sub=True)
    restore_outer = self.restore_io
    w.real_thread = self.real_thread
    w.install()
    try:
      w.disk.window(None)
      try:
        w.raw_save(op, ent)
      except Exception:  # noqa: BLE001
        pass
      n = w.disk.ops - w.disk.base
      kinds = [k[0] for k in w.disk.oplog]
    finally:
      w.sched.shutdown()
      w.disk.quiesce()
      w.disk.dispose()
      self._reinstall()
    return n, kinds

  def _reinstall(self):
    self.disk.install(fio, self.k['io_mode'], tf_errors)
    checkpoints.thread = S.SimExecutorModule(self.sched)

  def do_save(self, oi, op, ent=None):
    res = self.res
    if ent is None:
      self.idx += 1
      ent = (self.idx * 7 + oi, op['tmpl'])
    step = op['step']
    if self.pending is not None and not self.asyn:
      raise kernel.HarnessError('pending in sync mode')
    if self.pending is not None and self.k['faults']:
      # keep fault windows attributable to one save: drain the in-flight save first
      # (fault-free async histories exercise the implicit wait inside save_checkpoint, including the case
      # where the policy must reject a save issued while the previous one is still in flight)
      self.wait(oi)
    had_pending = self.pending is not None
    exp_err = self.expect_error(step, op['overwrite'])
    if exp_err:
      res.probe('policy_error_expected')
    fault = None
    if self.k['faults'] and op.get('fault') and not exp_err:
      n, kinds = self.measure(op, ent)
      if n > 0:
        fault = dict(op['fault'])
        fault['at'] = fault['at'] % n
        if kinds[fault['at']] not in ('write', 'flush'):
          fault['torn'] = None
    before = dict(self.model)
    snap_before = self.disk.snapshot()
    self.disk.window(fault)
    where = f'op {oi} save(step={step}, keep={op["keep"]}, every={op["every"]}, overwrite={op["overwrite"]})'
    outcome = 'ok'
    err = None
    try:
      self.raw_save(op, ent, self.am)
    except D.SimCrash:
      outcome = 'crash'
    except (S.Deadlock, S.StepCap) as e:
      raise Violation('async-deadlock', f'{where}: {e}')
    except Exception as e:  # noqa: BLE001
      outcome = 'exc'
      err = e
    self.nsaves += 1
    if self.disk.frozen:
      outcome = 'crash'
    self.log.add(oi, 'save', outcome, type(err).__name__ if err else None)
    if outcome == 'crash':
      self.handle_crash(oi, op, ent, before, where)
      return
    if outcome == 'exc':
      if self.disk.fired is not None and self.disk.fired['kind'] == 'ioerror':
        self.model_at_fault = before
        self.note_fault(op)
        self.last_faulted = (op, ent)
        self.after_interruption(op, ent, before, where + ' after injected I/O error ' + str(self.disk.fired))
        return
      if self.asyn and self.pending is not None and self.pending.get('fault'):
        raise kernel.HarnessError('async ioerror not generated')
      if not exp_err:
        raise Violation('unexpected-exception', f'{where}: raised {type(err).__name__}: {err} although the policy allows the save')
      if had_pending:
        # the in-flight save completed inside the rejected call: the directory must be exactly what the model
        # (which does not contain the rejected save) promises
        self.wait(oi)
      elif self.disk.snapshot() != snap_before:
        raise Violation('rejected-save-changed-directory', f'{where}: raised {type(err).__name__} but the directory changed')
      if op.get('_retry'):
        res.probe('retry_rejected_committed')
      return
    # returned normally
    if exp_err:
      raise Violation('missing-policy-error', f'{where}: step {step} exists or is older than the latest {max(self.model)} but the save did not raise')
    after = policy(self.model, step, op['keep'], op['every'], op['overwrite'])
    if op['overwrite'] and any(s > step for s in self.model):
      res.probe('overwrite_removed_newer')
    if op['every'] and len(after) > op['keep']:
      res.probe('keep_every_retained')
      if 0 in after and len(after) > op['keep'] and min(after) == 0:
        res.probe('step0_with_keep_every')
    new_model = {s: (ent if s == step else self.model[s]) for s in after}
    self.debris_ok = False
    if self.asyn:
      self.pending = dict(op=op, ent=ent, before=before, fault=fault, where=where)
      self.model = new_model
      self.completed.append((op, ent))
      return
    self.model = new_model
    self.completed.append((op, ent))
    if fault is not None and self.disk.fired is None:
      raise kernel.HarnessError(f'fault {fault} did not fire')
    self.check_complete(where)

  def note_fault(self, op=None):
    f = self.disk.fired
    self.had_fault = True
    name = f['name']
    own = self.prefix + str(op['step']) if op is not None else None
    d0 = self.k['dir'].rstrip('/') + '/'
    rel = name[len(d0):] if name.startswith(d0) else name  # entry of the checkpoint directory the operation touched
    ent = rel.split('/')[0]
    if f['op'] == 'rename':
      site = 'commit-rename'
    elif self.is_debris(ent):
      site = 'tmp'
    elif ent == own:
      site = 'own-final'
    elif ent in self.names:
      site = 'other-step'
    else:
      site = 'directory'
    LAST_FAULT[0] = dict(site=site, kind=f['kind'], overwrite=bool(op and op['overwrite']), existed=bool(op and op['step'] in self.model_at_fault))
    self.res.fault(f"{f['kind']}@{f['op']}")
    if f.get('torn_bytes') is not None:
      self.res.probe('torn_write')
    if f['kind'] == 'ioerror':
      self.res.probe('ioerror_runs')

  def handle_crash(self, oi, op, ent, before, where):
    """The simulated process died (in this save, or in the async save that was in flight)."""
    if self.pending is not None:
      p = self.pending
      op, ent, before, where = p['op'], p['ent'], p['before'], p['where']
      if self.completed and self.completed[-1][0] is op:
        self.completed.pop()
    self.model_at_fault = before
    self.note_fault(op)
    self.last_faulted = (op, ent)
    self.disk.restart()
    self.new_process()
    self.after_interruption(op, ent, before, where + ' after crash ' + str(self.disk.fired))

  def sweep(self, oi, op):
    """Crash at EVERY file operation of this save (and every torn variant), each from the same pre-state."""
    self.idx += 1
    ent = (self.idx * 7 + oi, op['tmpl'])
    if self.expect_error(op['step'], op['overwrite']):
      return self.do_save(oi, dict(op, sweep=False), ent)
    n, kinds = self.measure(op, ent)
    for kk in range(n):
      torns = [None, 'one', 0.5, 'allbutone'] if kinds[kk] in ('write', 'flush') else [None]
      for torn in torns:
        w = World(self.plan, self.res, kernel.Log(), disk=self.disk.clone(), model=self.model, chooser=S.Chooser(schedule=[]), sub=True)
        w.real_thread = self.real_thread
        w.foreign = self.foreign
        w.idx = self.idx
        w.install()
        try:
          f_op = dict(op, fault=dict(kind='crash', at=kk, torn=torn), sweep=False)
          w.k = dict(self.k, faults=True)
          w.do_save(oi, f_op, ent)
          self.res.probe('sweep_points')
          # (c) continuation: retry, then a later step re-establishes the policy
          w.do_save(oi, dict(op, sweep=False, fault=None, _retry=True), ent)
          later = [s for s in self.pool if s > max(list(w.model) + [op['step']])]
          if later:
            w.idx += 50
            w.do_save(oi, dict(op, step=min(later), sweep=False, fault=None, overwrite=False), None)
        finally:
          w.sched.shutdown()
          w.disk.quiesce()
          w.disk.dispose()
          self._reinstall()
        self.res.steps += w.disk.ops
    self.do_save(oi, dict(op, sweep=False, fault=None), ent)

  # -- other ops
  def wait(self, oi, final=False):
    if not self.asyn or self.am is None:
      return
    p = self.pending
    err = None
    try:
      self.am.wait_previous_save()
    except D.SimCrash:
      pass
    except (S.Deadlock, S.StepCap) as e:
      raise Violation('async-deadlock', f'op {oi} wait: {e}')
    except Exception as e:  # noqa: BLE001 -- the background save's own failure may surface here
      err = e
    if self.disk.frozen:
      self.log.add(oi, 'wait', 'crash')
      self.handle_crash(oi, p['op'], p['ent'], p['before'], p['where'])
      return
    f = self.disk.fired
    if p is not None and p.get('fault') is not None and p['fault']['kind'] == 'ioerror' and f is not None and f['kind'] == 'ioerror':
      # the asynchronous save failed with the injected I/O error (whether or not wait re-raised it): an interrupted
      # save, old-or-new rule; the process and its AsyncManager live on and later saves must work
      self.pending = None
      if self.completed and self.completed[-1][0] is p['op']:
        self.completed.pop()
      self.model = dict(p['before'])
      self.model_at_fault = p['before']
      self.note_fault(p['op'])
      self.last_faulted = (p['op'], p['ent'])
      self.res.probe('async_save_failed_with_ioerror')
      self.log.add(oi, 'wait', 'ioerror')
      self.after_interruption(p['op'], p['ent'], p['before'], p['where'] + ' after injected I/O error in the background save ' + str(f))
      return
    if err is not None:
      raise Violation('unexpected-exception', f'op {oi} wait_previous_save raised {type(err).__name__}: {err} although no fault is pending')
    self.pending = None
    self.log.add(oi, 'wait', 'ok')
    if p is not None and p.get('fault') is not None and self.disk.fired is None:
      raise kernel.HarnessError(f'async fault {p["fault"]} did not fire')
    self.check_complete(f'op {oi} after wait_previous_save')

  def latest(self, oi):
    lat = checkpoints.latest_checkpoint(self.dir, self.prefix)
    if self.disk.frozen:
      p = self.pending
      self.handle_crash(oi, p['op'], p['ent'], p['before'], p['where'])
      return
    if self.pending is None:
      want = self.path(max(self.model)) if self.model else None
      if lat != want:
        raise Violation('latest-wrong', f'op {oi}: latest_checkpoint={lat}, expected {want}')
      self.log.add(oi, 'latest', lat and lat[len(self.dir):])
      return
    # a save is in flight: latest must name a COMPLETE checkpoint: the previous latest or the new step
    self.res.probe('async_latest_in_flight')
    p = self.pending
    before, S_ = p['before'], p['op']['step']
    cands = {}
    if before:
      for s in before:
        cands[self.path(s)] = [before[s]]
    cands.setdefault(self.path(S_), []).append(p['ent'])
    if lat is None:
      if before:
        raise Violation('latest-wrong', f'op {oi}: latest_checkpoint=None while checkpoints {sorted(before)} exist (save in flight)')
      return
    if lat not in cands:
      raise Violation('latest-is-temporary' if lat.endswith('tmp') else 'latest-wrong', f'op {oi}: latest_checkpoint={lat} during an asynchronous save')
    if not p['op']['overwrite']:
      ok = {self.path(S_)} | ({self.path(max(before))} if before else set())
      if lat not in ok:
        raise Violation('latest-not-old-or-new', f'op {oi}: latest {lat} during async save of {S_}')
    data = self.disk.get_file(lat)
    good = False
    if data is not None:
      try:
        r = serialization.msgpack_restore(data)
        good = any(same(r, state_dict(self.tree_of(e))) for e in cands[lat])
      except Exception:  # noqa: BLE001
        good = False
    if not good:
      raise Violation('latest-incomplete', f'op {oi}: latest_checkpoint={lat} names a file that is not a complete checkpoint (save in flight)')

  def step(self, oi, op):
    kind = op['op']
    if kind == 'save':
      if op.get('sweep') and self.k['faults'] and not self.asyn:
        self.sweep(oi, op)
      else:
        self.do_save(oi, op)
    elif kind == 'retry':
      if self.last_faulted is not None:
        fop, ent = self.last_faulted
        self.do_save(oi, dict(fop, fault=None, sweep=False, _retry=True), ent)
        self.last_faulted = None
    elif kind == 'wait':
      self.wait(oi)
    elif kind == 'latest':
      self.latest(oi)
    elif kind == 'available':
      self.wait(oi)
      if self.model:
        st = int if self.int_steps else float
        av = checkpoints.available_steps(self.dir, self.prefix, step_type=st)
        if av != [st(s) for s in sorted(self.model)]:
          raise Violation('available-steps-wrong', f'op {oi}: available_steps={av}, expected {sorted(self.model)}')
      self.log.add(oi, 'available', sorted(self.model))
    elif kind == 'restore':
      self.wait(oi)
      if any(e is not None for e in self.model.values()):
        steps = sorted(s for s, e in self.model.items() if e is not None)
        s = steps[op['which'] % len(steps)]
        self.check_restore(s, self.model[s], f'op {oi}', target=op['target'], parallel=op['parallel'])
        self.log.add(oi, 'restore', s)
      else:
        t = {'keep': np.zeros(1)}
        if self.model:
          return
        r = checkpoints.restore_checkpoint(self.dir, t, prefix=self.prefix)
        if r is not t:
          raise Violation('restore-invented-data', f'op {oi}: restore from an empty directory did not return the target unchanged')
    elif kind == 'foreign':
      self.wait(oi)
      name = op['name']
      if name.startswith(self.prefix) or name in self.foreign:
        return
      d = self.disk
      p = self.dir + '/' + name
      if name in d.listdir(self.dir):
        return
      data = ('foreign ' + name).encode()
      if op['isdir']:
        d.put_file(p + '/inner', data)
      else:
        d.put_file(p, data)
      self.foreign[name] = (op['isdir'], data)
      self.log.add(oi, 'foreign', name)
    else:
      raise kernel.HarnessError('unknown op ' + kind)

  def finish(self):
    self.wait('end', final=True)
    if self.model or self.nsaves:
      self.check_complete('end of history')
    if self.asyn and not self.had_fault and self.completed:
      # (d) the same saves done synchronously leave the same directory, byte for byte
      w = World(self.plan, Result(), kernel.Log(), disk=D.SimDisk(self.k['listdir_seed']), chooser=S.Chooser(schedule=[]), sub=True)
      w.real_thread = self.real_thread
      w.install()
      try:
        for op, ent in self.completed:
          w.disk.window(None)
          w.raw_save(op, ent)
      finally:
        w.sched.shutdown()
        self._reinstall()
      mine = {p: v for p, v in self.disk.files.items() if p.startswith(self.dir + '/' + self.prefix) and ORBAX_TMP not in p}  # SimDisk only (async is legacy-only)
      if mine != w.disk.files:
        raise Violation('async-differs-from-sync', f'async saves left {sorted(mine)}, the same saves done synchronously leave {sorted(w.disk.files)} (or contents differ)')


def execute(plan):
  res = Result()
  log = kernel.Log()
  k = plan['knobs']
  if 'schedule' in plan and plan['schedule'] is not None:
    chooser = S.Chooser(schedule=plan['schedule'])
  else:
    chooser = S.Chooser(rng=stream(plan['schedule_seed'], 'sched'), stay_bias=k.get('stay_bias', 0.0))
  old_chunk = serialization.MAX_CHUNK_SIZE
  old_flag = config.flax_use_orbax_checkpointing
  serialization.MAX_CHUNK_SIZE = k['chunk']
  config.update('flax_use_orbax_checkpointing', k['backend'] == 'orbax')
  EMPTY_OK[0] = k['backend'] != 'orbax'
  w = World(plan, res, log, chooser=chooser)
  viol = None
  LAST_FAULT[0] = None
  try:
    w.install()
    try:
      lc = k.get('legacy_ckpt')
      if lc and k['backend'] == 'orbax':
        # committed by the legacy back-end before the history starts (a run begun with flax_use_orbax_checkpointing
        # off, or an older flax); from here on it is one more retained step of the directory
        config.update('flax_use_orbax_checkpointing', False)
        try:
          ent0 = (5000 + lc['tmpl'], lc['tmpl'])
          checkpoints.save_checkpoint(w.dir, w.tree_of(ent0), lc['step'], prefix=w.prefix, keep=8)
        finally:
          config.update('flax_use_orbax_checkpointing', True)
        w.model[lc['step']] = ent0
        res.probe('legacy_checkpoint_in_orbax_dir')
      for oi, op in enumerate(plan['ops']):
        if lc and k['backend'] == 'orbax' and op['op'] == 'save' and op['step'] == lc['step'] and op['overwrite']:
          op = dict(op, overwrite=False)  # Orbax's force-overwrite of a FILE is Orbax's business; the rejection path is the point here
        w.step(oi, op)
      w.finish()
    except Violation as v:
      viol = dict(kind=v.kind, detail=v.detail)
    except D.SimCrash as e:
      raise kernel.HarnessError(f'SimCrash escaped: {e}')
    except kernel.HarnessError:
      raise
    except Exception as e:  # noqa: BLE001
      if not kernel.through_sut(e):
        raise
      viol = dict(kind='unexpected-exception', detail=f'op {oi} {op["op"]}: flax raised {type(e).__name__}: {e}')
  finally:
    res.steps += w.uninstall() + w.disk.ops
    serialization.MAX_CHUNK_SIZE = old_chunk
    config.update('flax_use_orbax_checkpointing', old_flag)
  if k['chunk'] < 256:
    res.probe('chunked_leaf')
  if k['backend'] == 'orbax':
    res.probe('orbax_histories')
  res.ops = len(plan['ops'])
  log.add('final', sorted(w.disk.files) if not w.disk.real else [n for n in w.listing() if not w.is_debris(n)], sorted(str(s) for s in w.model))
  if w.disk.real:
    w.disk.dispose()
  log.add('sched', list(chooser.trace))
  res.digest = log.digest()
  res.sched_digest = kernel.digest(chooser.trace) if k['asyn'] else ''
  res.nontrivial = bool(res.faults) or w.nsaves >= 3
  if viol is not None:
    viol['last_fault'] = LAST_FAULT[0]
  res.violation = viol
  if viol is not None and 'schedule' not in plan and k['asyn']:
    res.replay_plan = dict(plan, schedule=list(chooser.trace))
  return res
