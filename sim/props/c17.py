"""C17 - optimizer wrappers apply exactly the optax update; metrics ignore batching.

nnxworld: parameter trees / NNX models grown by the heap ops of C03 (sharing included), optax transformations
from a menu, wrapped in nnx.Optimizer(wrt=filter), flax.training TrainState and nnx.TrainState.  Histories of
gradient steps (eager and inside nnx.jit / jax.jit, alternating on one object) interleaved with edits of
Variables outside `wrt`, against the hand-written loop `updates, s = tx.update(g, s, p); p = apply_updates(p,
updates)` on copies.  Metrics: a value stream cut into batches at generated points with resets, against float64
NumPy statistics.
"""
from __future__ import annotations

from sim import kernel, nnxworld as W
from sim.kernel import Result, Violation, stream

PROP = 'C17'
TIERS = {
  'quick': dict(runs=2800, deadline=50, workers=16),
  'thorough': dict(runs=120000, deadline=800, workers=16),
}
SELFTEST_RUNS = 160
RULE = (
  'optimizer runs: a model graph from 3..10 heap-building ops (Params, SubParams, BatchStats, Cache, raw arrays, shared '
  'Variables, nested nodes), an optax transformation (sgd, momentum, adam, adamw, chain(clip, sgd), schedule-driven lr, '
  'MultiSteps), a wrapper (nnx.Optimizer with wrt in {Param, SubParam, Any(Param, Custom)}, nnx.TrainState, flax TrainState), '
  'then 2..8 ops: gradient step with generated integer gradients, eagerly or under jit, or an edit of a Variable outside wrt; '
  'after every step params, optimizer state and step counter are compared with the hand-written optax loop on copies (bytes when '
  'both sides ran eagerly with sgd/momentum/clip, rtol 1e-5 otherwise) and everything outside wrt is compared with the mirror '
  '(canonical form + identity). metric runs: Average / Accuracy / Welford / MultiMetric over a generated stream of small integers '
  'cut into batches at generated points, with resets, eagerly or under nnx.jit, against float64 NumPy statistics of everything '
  'since the last reset, and against the same stream under another partition. Non-trivial = >= 2 steps or >= 2 batches; '
  'distinct = distinct event-log digest.'
)
STEP_UNIT = 'optimizer steps and metric updates'
COMPONENTS = {'real': ['flax/nnx/training/optimizer.py', 'flax/nnx/helpers.py TrainState', 'flax/training/train_state.py', 'flax/nnx/training/metrics.py', 'optax (the transformation under the wrapper and in the reference loop)'], 'stub': []}
ASSUMPTIONS = [
  'optax itself is the trusted base: the reference loop calls the same tx.init / tx.update / apply_updates by hand',
  'inexact arithmetic (Adam square roots, Welford moments, jit-vs-eager fusion) is compared with rtol=1e-5 (Welford 1e-4); everything else bytewise',
  'one fault kind: the wrapped optax transformation raises inside an eager Optimizer.update; read narrowly - a failed update is not an update, so step counter, parameters and optimizer state stay what the hand-written loop (which skipped that step) has, and the exception reaches the caller',
]
PROBES = ['metric_accuracy_threshold_zero', 'linen_trainstate_bare_array_params', 'opt_nnx_optimizer', 'opt_nnx_trainstate', 'opt_linen_trainstate', 'step_jit', 'step_eager', 'jit_eager_alternation', 'non_wrt_edit', 'shared_param', 'multisteps', 'schedule', 'metric_average', 'metric_accuracy', 'metric_welford', 'metric_multi', 'metric_reset', 'metric_jit', 'metric_empty_nan', 'metric_repartition', 'metric_big_stream', 'mixed_precision_params', 'param_with_set_hook', 'param_metadata_edited_after_optimizer_creation', 'linen_trainstate_overwrite_with_gradient', 'metric_low_precision_values']


def setup_worker(w, tier):
  W.setup()
  global np, jax, jnp, nnx, optax, train_state
  np, jax, jnp, nnx = W.np, W.jax, W.jnp, W.nnx
  import optax
  from flax.training import train_state


def generate(rs, tier):
  g = stream(rs, 'gen')
  if g.random() < 0.4:
    return gen_metric(g)
  build = W.gen_build_ops(g, g.randrange(3, 10))
  # make sure there is at least one Param
  build.append(dict(op='var', obj=0, name='w', vtype='Param', shape=[2], fill=g.randrange(1, 5), meta={}))
  ops = []
  for _ in range(g.randrange(2, 9)):
    r = g.random()
    if r < 0.08:
      # fault: the wrapped optax transformation raises inside this update (eager call)
      ops.append(dict(op='step', jit=False, gseed=g.randrange(100), fail=True))
    elif r < 0.8:
      ops.append(dict(op='step', jit=g.random() < 0.35, gseed=g.randrange(100)))
    elif r < 0.93:
      ops.append(dict(op='edit', target=g.randrange(64), delta=g.randrange(1, 5)))
    else:
      # the user tags one of the optimised parameters (metadata) after the optimizer was created
      ops.append(dict(op='meta_edit', target=g.randrange(64), key=g.choice(['tag', 'group']), value=g.choice(['decay', 'frozen', 1])))
  return dict(
    engine='nnxworld',
    knobs=dict(kind='optimizer', hooks=g.random() < 0.25, owg=g.random() < 0.3, frozen=g.random() < 0.4, build=build, tx=g.choice(['sgd', 'momentum', 'adam', 'adamw', 'clip_sgd', 'schedule', 'multisteps']), wrapper=g.choice(['nnx.Optimizer', 'nnx.Optimizer', 'nnx.TrainState', 'linen.TrainState']), wrt=g.choice(['Param', 'Param', 'SubParam', 'ParamOrCustom']), pdtype=g.choice(['float32', 'float32', 'float32', 'bfloat16']), bare=g.random() < 0.2),
    ops=ops,
  )


def gen_metric(g):
  if g.random() < 0.06:
    # long stream, few large batches: running-moment merges with large counts (count products beyond 2**31)
    n = g.choice([60000, 100000, 140000])
    return dict(engine='nnxworld', knobs=dict(kind='metric', metric=g.choice(['Welford', 'Average', 'Multi']), big=dict(n=n, seed=g.randrange(1000), lo=g.randrange(-3, 3)), vals=[], labels=[], jit=False),
                ops=[dict(op='partition', cuts=sorted(set(g.randrange(1, n) for _ in range(g.randrange(1, 3)))), resets=[]), dict(op='partition', cuts=[g.randrange(1, n)], resets=[])])
  n = g.randrange(0, 25)
  vals = [g.randrange(-6, 12) for _ in range(n)]
  labels = [g.randrange(0, 3) for _ in range(n)]
  cuts = sorted(set(g.randrange(0, n + 1) for _ in range(g.randrange(0, 6)))) if n else []
  resets = sorted(set(g.choice(cuts) for _ in range(g.randrange(0, 2)))) if cuts else []
  cuts2 = sorted(set(g.randrange(0, n + 1) for _ in range(g.randrange(0, 6)))) if n else []
  metric = g.choice(['Average', 'Accuracy_multi', 'Accuracy_binary', 'Welford', 'Multi'])
  vdtype = 'float32'
  if metric == 'Average' and g.random() < 0.4:
    # mixed-precision losses: half-precision batches (small integers, every batch sum exact), float32 statistic
    vdtype = g.choice(['bfloat16', 'float16'])
    vals = [g.randrange(-3, 5) for _ in range(n)]
  # binary accuracy: the documented threshold option, including the falsy threshold 0.0
  threshold = g.choice([2.5, 2.5, 0.0, 0.0, -1.0])
  return dict(engine='nnxworld', knobs=dict(kind='metric', metric=metric, vdtype=vdtype, vals=vals, labels=labels, jit=g.random() < 0.3, threshold=threshold), ops=[dict(op='partition', cuts=cuts, resets=resets), dict(op='partition', cuts=cuts2, resets=[])])


SHRINK_LISTS = ['ops']


STATEFUL_TX = ('momentum', 'adam', 'adamw', 'multisteps')


def signature(plan, v):
  k = plan['knobs']
  sig = dict(kind=k['kind'])
  if k['kind'] == 'optimizer':
    sig['metadata_edited_then_stateful_update'] = bool(k['wrapper'] == 'nnx.Optimizer' and k['tx'] in STATEFUL_TX and any(o.get('op') == 'meta_edit' for o in plan['ops']))
  return sig


class TxFault(Exception):
  pass


class _Hook:
  def __call__(self, var, value):
    return value + 64.0

  def __repr__(self):
    return 'HOOK'


HOOK = _Hook()


def make_tx(name):
  if name == 'sgd':
    return optax.sgd(0.5), True
  if name == 'momentum':
    return optax.sgd(0.25, momentum=0.5), True
  if name == 'adam':
    return optax.adam(2.0**-3), False
  if name == 'adamw':
    return optax.adamw(2.0**-4, weight_decay=2.0**-5), False
  if name == 'clip_sgd':
    return optax.chain(optax.clip(2.0), optax.sgd(0.5)), True
  if name == 'schedule':
    return optax.sgd(optax.piecewise_constant_schedule(1.0, {2: 0.5, 4: 0.5})), True
  if name == 'multisteps':
    return optax.MultiSteps(optax.sgd(0.5), every_k_schedule=2), False
  raise ValueError(name)


def wrt_filters(name):
  if name == 'Param':
    return nnx.Param, {'t': 'Param'}
  if name == 'SubParam':
    return W.VTYPES['SubParam'], {'t': 'SubParam'}
  return nnx.Any(nnx.Param, W.VTYPES['Custom']), {'any': [{'t': 'Param'}, {'t': 'Custom'}]}


def close(a, b, exact):
  a, b = np.asarray(a), np.asarray(b)
  if a.shape != b.shape or a.dtype != b.dtype:
    return False
  if exact:
    return a.dtype == b.dtype and a.tobytes() == b.tobytes()
  rtol = 1e-5 if a.dtype.itemsize >= 4 else 2e-2  # bfloat16 has 8 bits of mantissa
  return bool(np.allclose(a.astype(np.float64), b.astype(np.float64), rtol=rtol, atol=1e-6))


def tree_close(x, y, exact):
  lx, tx_ = jax.tree_util.tree_flatten(x)
  ly, ty = jax.tree_util.tree_flatten(y)
  if len(lx) != len(ly):
    return False
  return all(close(a, b, exact) for a, b in zip(lx, ly))


class OptWorld:
  def __init__(self, plan, res, log):
    self.plan, self.res, self.log = plan, res, log
    k = plan['knobs']
    self.h = W.Heap()
    for op in k['build']:
      W.apply_build_op(self.h, op, res)
    self.root = self.h.nodes[0]
    if k.get('pdtype') == 'bfloat16':
      # mixed precision: low-precision parameters, float32 gradients / updates
      import ml_dtypes

      res.probe('mixed_precision_params')
      for i in self.h.vars:
        mv = self.h.model[i]
        if 'Param' in W.VT_MRO[mv.vtype] or mv.vtype == 'Custom':
          mv.value = mv.value.astype(ml_dtypes.bfloat16)
          self.h.real[i].value = jnp.asarray(mv.value)
    if k.get('hooks'):
      # user hooks on the parameters (they act on user assignments `p.value = ...`): an optimizer step is not a user
      # assignment, and the optimizer's own state is not the user's Variable -- the hand-written loop knows no hooks
      real_f0, model_f0 = wrt_filters(k['wrt'])
      for p_, l in W.model_leaves(self.h.model[self.root]):
        if isinstance(l, W.MVar) and W.filter_model(model_f0, p_, l) and 'on_set_value' not in l.meta:
          l.meta['on_set_value'] = HOOK
          setattr(self.h.real[l.id], 'on_set_value', HOOK)
          res.probe('param_with_set_hook')
    self.tx, self.exact_tx = make_tx(k['tx'])
    inner_tx = self.tx
    self.fail_next = [False]

    def failing_update(updates, state, params=None, **kw):
      if self.fail_next[0]:
        self.fail_next[0] = False
        raise TxFault('injected failure inside the optax transformation')
      return inner_tx.update(updates, state, params, **kw)

    # the wrapper holds a transformation whose update can be made to fail; the reference loop uses the plain one
    self.faulty_tx = optax.GradientTransformation(inner_tx.init, failing_update)
    self.real_f, self.model_f = wrt_filters(k['wrt'])
    self.wrapper = k['wrapper']
    self.steps = 0
    self.last_mode = None
    if k['tx'] == 'multisteps':
      res.probe('multisteps')
    if k['tx'] == 'schedule':
      res.probe('schedule')
    model = self.h.real[self.root]
    # reference: parameters as a pure dict of numpy arrays keyed by path, and the optax state on them
    self.sel = [(p, l) for p, l in W.model_leaves(self.h.model[self.root]) if isinstance(l, W.MVar) and W.filter_model(self.model_f, p, l)]
    if any(c > 1 for i, c in W.model_paths_count(self.h.model[self.root]).items() if any(l.id == i for _, l in self.sel)):
      res.probe('shared_param')
    self.ref_params = nnx.state(model, self.real_f)
    self.ref_params = jax.tree.map(lambda x: np.array(x), self.ref_params)
    self.ref_state = self.tx.init(self.ref_params)
    if self.wrapper == 'nnx.Optimizer':
      res.probe('opt_nnx_optimizer')
      self.opt = nnx.Optimizer(model, self.faulty_tx, wrt=self.real_f)
      self.jit_update = nnx.jit(lambda o, g: o.update(g))
    elif self.wrapper == 'nnx.TrainState':
      res.probe('opt_nnx_trainstate')
      gd, params, rest = nnx.split(model, self.real_f, ...)
      self.gd, self.rest = gd, rest
      self.ts = nnx.TrainState.create(gd, params=params, tx=self.tx)
      self.jit_update = jax.jit(lambda ts, g: ts.apply_gradients(g))
    else:
      res.probe('opt_linen_trainstate')
      params = nnx.state(model, self.real_f).to_pure_dict()
      self.pure0 = params
      self.ref_params = jax.tree.map(lambda x: np.array(x), params)
      self.ref_state = self.tx.init(self.ref_params)
      self.owg = None
      if k.get('bare') and not k.get('owg') and jax.tree_util.tree_leaves(params):
        # the parameter tree is one bare array (a legal pytree)
        params = jnp.asarray(jax.tree_util.tree_leaves(params)[0])
        self.ref_params = np.array(params)
        self.ref_state = self.tx.init(self.ref_params)
        res.probe('linen_trainstate_bare_array_params')
      if k.get('owg'):
        # fp8-style parameters: a second collection whose "gradient" simply replaces the value
        from flax.linen.fp8_ops import OVERWRITE_WITH_GRADIENT as OWG

        self.owg = OWG
        params = {'params': params, OWG: {'scale': np.full((2,), 1.0, np.float32)}}
        if k.get('frozen'):
          import flax

          params = flax.core.freeze(params)
        res.probe('linen_trainstate_overwrite_with_gradient')
      self.ts = train_state.TrainState.create(apply_fn=lambda *a: None, params=params, tx=self.tx)
      self.jit_update = jax.jit(lambda ts, g: ts.apply_gradients(grads=g))

  def grads_like(self, tree, gseed):
    g = stream(gseed, 'grads')
    return jax.tree.map(lambda p: np.full(np.shape(p), float(g.randrange(-3, 4)), np.float32), tree)

  def step(self, oi, op):
    res = self.res
    if op['op'] == 'edit':
      # change a Variable that is NOT selected by wrt: it must survive every later update unchanged
      sel_ids = {l.id for _, l in self.sel}
      others = [l for p, l in W.model_leaves(self.h.model[self.root]) if isinstance(l, W.MVar) and l.id not in sel_ids]
      if not others or self.wrapper != 'nnx.Optimizer':
        return
      l = others[op['target'] % len(others)]
      l.value = l.value + np.float32(op['delta'])
      self.h.real[l.id].value = np.asarray(l.value)
      res.probe('non_wrt_edit')
      self.log.add(oi, 'edit')
      self.h.check_root(self.root, f'op {oi} edit')
      return
    if op['op'] == 'meta_edit':
      if self.wrapper != 'nnx.Optimizer' or not self.sel:
        return
      p_, l = self.sel[op['target'] % len(self.sel)]
      setattr(self.h.real[l.id], op['key'], op['value'])
      l.meta[op['key']] = op['value']
      res.probe('param_metadata_edited_after_optimizer_creation')
      self.log.add(oi, 'meta_edit')
      self.h.check_root(self.root, f'op {oi} meta_edit')
      return
    if op.get('fail'):
      if self.wrapper != 'nnx.Optimizer':
        return
      # A failed update is not an update: the step counter counts applied updates, and parameters / optimizer state
      # must be what the hand-written loop (which did not run this step) has.
      before = (int(self.opt.step.value), [np.array(x) for x in jax.tree_util.tree_leaves(nnx.state(self.h.real[self.root], self.real_f))], [np.array(v.value) for v in jax.tree_util.tree_leaves(self.opt.opt_state, is_leaf=lambda x: isinstance(x, nnx.Variable))])
      self.fail_next[0] = True
      try:
        self.opt.update(self.grads_like(self.ref_params, op['gseed']))
        raise Violation('exception-swallowed', f'op {oi}: the exception raised by the optax transformation did not reach the caller of update')
      except TxFault:
        res.fault('raise_in_optax_update')
      after = (int(self.opt.step.value), [np.array(x) for x in jax.tree_util.tree_leaves(nnx.state(self.h.real[self.root], self.real_f))], [np.array(v.value) for v in jax.tree_util.tree_leaves(self.opt.opt_state, is_leaf=lambda x: isinstance(x, nnx.Variable))])
      if before[0] != after[0]:
        raise Violation('step-counter-wrong', f'op {oi}: the update failed inside optax (nothing was applied) but the step counter went from {before[0]} to {after[0]}')
      if any(a.tobytes() != b.tobytes() for a, b in zip(before[1] + before[2], after[1] + after[2])):
        raise Violation('params-differ-from-optax-loop', f'op {oi}: the update failed inside optax but parameters or optimizer state changed')
      self.h.check_root(self.root, f'op {oi} failed update')
      self.log.add(oi, 'step', 'failed')
      return
    jit = op['jit']
    res.probe('step_jit' if jit else 'step_eager')
    if self.last_mode is not None and self.last_mode != jit:
      res.probe('jit_eager_alternation')
    self.last_mode = jit
    exact = self.exact_tx and not jit
    grads = self.grads_like(self.ref_params, op['gseed'])
    ref_grads = grads
    owg_val = None
    if self.wrapper == 'linen.TrainState' and getattr(self, 'owg', None):
      owg_val = np.full((2,), float(op['gseed'] % 7) - 3.0, np.float32)
      grads = {'params': grads, self.owg: {'scale': owg_val}}
      if self.plan['knobs'].get('frozen'):
        import flax

        grads = flax.core.freeze(grads)  # gradients have the container types of the parameters
    # reference: the hand-written loop on copies
    updates, new_state = self.tx.update(ref_grads, self.ref_state, self.ref_params)
    new_params = optax.apply_updates(self.ref_params, updates)
    where = f'op {oi} step(jit={jit})'
    if self.wrapper == 'nnx.Optimizer':
      step_before = int(self.opt.step.value)
      # what nnx.grad would hand back now: the structure (and metadata) of the current parameters, same numbers
      grads = self.grads_like(nnx.state(self.h.real[self.root], self.real_f), op['gseed'])
      if jit:
        self.jit_update(self.opt, grads)
      else:
        self.opt.update(grads)
      if int(self.opt.step.value) != step_before + 1:
        raise Violation('step-counter-wrong', f'{where}: step went from {step_before} to {int(self.opt.step.value)}')
      got = nnx.state(self.h.real[self.root], self.real_f)
      if not tree_close(got, new_params, exact):
        raise Violation('params-differ-from-optax-loop', f'{where}: parameters after Optimizer.update differ from tx.update + apply_updates done by hand ({self.plan["knobs"]["tx"]}, exact={exact})')
      got_state = jax.tree.map(lambda v: np.asarray(v.value), self.opt.opt_state, is_leaf=lambda x: isinstance(x, nnx.Variable))
      if not tree_close(jax.tree_util.tree_leaves(got_state), jax.tree_util.tree_leaves(new_state), exact):
        raise Violation('opt-state-differs-from-optax-loop', f'{where}: optimizer state differs from the hand-written loop')
      # everything outside wrt unchanged, same objects: resync the selected values, then compare the whole graph
      flat = dict(W.flat_real_state(got))
      for p, l in self.sel:
        l.value = np.asarray(flat[p].value)
      self.h.check_root(self.root, where)
    else:
      old = self.ts
      before = [np.array(x) for x in jax.tree_util.tree_leaves((old.params, old.opt_state, old.step))]
      new = self.jit_update(old, grads) if jit else (old.apply_gradients(grads) if self.wrapper == 'nnx.TrainState' else old.apply_gradients(grads=grads))
      if new is old:
        raise Violation('functional-state-mutated', f'{where}: apply_gradients returned the same instance')
      after = [np.array(x) for x in jax.tree_util.tree_leaves((old.params, old.opt_state, old.step))]
      if len(before) != len(after) or any(a.tobytes() != b.tobytes() for a, b in zip(before, after)):
        raise Violation('functional-state-mutated', f'{where}: the old train state changed')
      if int(new.step) != int(old.step) + 1:
        raise Violation('step-counter-wrong', f'{where}: step went from {int(old.step)} to {int(new.step)}')
      got_params = new.params
      if owg_val is not None:
        if sorted(new.params.keys()) != sorted(['params', self.owg]) or np.asarray(new.params[self.owg]['scale']).tobytes() != owg_val.tobytes():
          raise Violation('params-differ-from-optax-loop', f'{where}: the overwrite-with-gradient collection does not hold the gradient passed in')
        got_params = new.params['params']
      if not tree_close(got_params, new_params, exact):
        raise Violation('params-differ-from-optax-loop', f'{where}: parameters after apply_gradients differ from the hand-written loop ({self.plan["knobs"]["tx"]})')
      if not tree_close(new.opt_state, new_state, exact):
        raise Violation('opt-state-differs-from-optax-loop', f'{where}: optimizer state differs from the hand-written loop')
      self.ts = new
      self.h.check_root(self.root, where)  # the model the state was taken from is untouched
    self.ref_params, self.ref_state = jax.tree.map(np.asarray, new_params), new_state
    self.steps += 1
    self.log.add(oi, 'step', jit)


def ref_stats(kind, vals, labels, threshold=2.5):
  v = np.asarray(vals, np.float64)
  if kind == 'Average':
    return dict(avg=v.mean() if len(v) else np.nan)
  if kind == 'Welford':
    if not len(v):
      return dict(mean=0.0, std=np.nan, sem=np.nan)
    return dict(mean=v.mean(), std=v.std(), sem=v.std() / np.sqrt(len(v)))
  if kind == 'Accuracy_binary':
    ok = ((v >= threshold) == (np.asarray(labels) > 0))
    return dict(avg=ok.mean() if len(v) else np.nan)
  if kind == 'Accuracy_multi':
    logits = np.stack([v, v * 0 + 3, -v], -1) if len(v) else np.zeros((0, 3))
    ok = logits.argmax(-1) == np.asarray(labels)
    return dict(avg=ok.mean() if len(v) else np.nan)
  raise ValueError(kind)


def run_metric(plan, res, log):
  k = plan['knobs']
  kind = k['metric']
  vals, labels = k['vals'], k['labels']
  if k.get('big'):
    b = k['big']
    r = np.random.RandomState(b['seed'])
    # two regimes with different means so that batch means differ from the running mean
    vals = np.concatenate([r.randint(b['lo'], b['lo'] + 4, b['n'] // 2), r.randint(b['lo'] + 3, b['lo'] + 9, b['n'] - b['n'] // 2)]).astype(np.float32)
    labels = np.zeros(len(vals), np.int32)
    res.probe('metric_big_stream')
  results = []
  for pi, part in enumerate(plan['ops']):
    if kind == 'Average':
      m = nnx.metrics.Average()
      res.probe('metric_average')
    elif kind == 'Welford':
      m = nnx.metrics.Welford()
      res.probe('metric_welford')
    elif kind == 'Accuracy_binary':
      m = nnx.metrics.Accuracy(threshold=k.get('threshold', 2.5))
      res.probe('metric_accuracy')
      if k.get('threshold', 2.5) == 0.0:
        res.probe('metric_accuracy_threshold_zero')
    elif kind == 'Accuracy_multi':
      m = nnx.metrics.Accuracy()
      res.probe('metric_accuracy')
    else:
      m = nnx.metrics.MultiMetric(loss=nnx.metrics.Average('values'), stats=nnx.metrics.Welford('values'))
      res.probe('metric_multi')

    def feed(mm, lo, hi):
      v = jnp.asarray(vals[lo:hi], jnp.float32)
      if k.get('vdtype', 'float32') != 'float32':
        v = v.astype(k['vdtype'])
      lab = jnp.asarray(labels[lo:hi], jnp.int32)
      if kind == 'Accuracy_binary':
        mm.update(logits=v, labels=lab)
      elif kind == 'Accuracy_multi':
        mm.update(logits=jnp.stack([v, v * 0 + 3, -v], -1), labels=lab)
      else:
        mm.update(values=v)

    if k['jit']:
      res.probe('metric_jit')
    since = 0
    pos = 0
    nb = 0
    cuts = [c for c in part['cuts'] if 0 < c < len(vals)] + [len(vals)]
    for c in cuts:
      if c > pos:
        if k['jit']:
          lo, hi = pos, c
          nnx.jit(lambda mm: feed(mm, lo, hi))(m)
        else:
          feed(m, pos, c)
        nb += 1
        pos = c
      if c in part['resets']:
        m.reset()
        since = c
        res.probe('metric_reset')
    got = m.compute()
    if k.get('vdtype', 'float32') != 'float32':
      res.probe('metric_low_precision_values')
    seen = list(vals[since:pos]) if not k.get('big') else vals[since:pos]
    where = f'partition {pi} (cuts {part["cuts"]}, resets {part["resets"]})'
    if kind == 'Multi':
      checks = [('Average', got['loss'], None), ('Welford', None, got['stats'])]
    elif kind == 'Welford':
      checks = [('Welford', None, got)]
    else:
      checks = [(kind, got, None)]
    for ck, avg, st in checks:
      want = ref_stats(ck, seen, labels[since:pos], k.get('threshold', 2.5))
      if st is None:
        a = float(avg)
        if np.isnan(want['avg']):
          res.probe('metric_empty_nan')
          if not np.isnan(a):
            raise Violation('metric-wrong', f'{where}: no values since the last reset but compute() = {a}')
        elif not np.isclose(a, want['avg'], rtol=1e-5 if not k.get('big') else 1e-3, atol=1e-6):
          raise Violation('metric-wrong', f'{where}: {ck}.compute() = {a}, statistic of all {len(seen)} values since the last reset is {want["avg"]}')
      else:
        if len(seen):
          for name, gotv, wantv in (('mean', st.mean, want['mean']), ('standard_deviation', st.standard_deviation, want['std']), ('standard_error_of_mean', st.standard_error_of_mean, want['sem'])):
            tol = 1e-4 if not k.get('big') else 2e-3
            if not np.isclose(float(gotv), wantv, rtol=tol, atol=tol):
              raise Violation('metric-wrong', f'{where}: Welford {name} = {float(gotv)}, statistic of all {len(seen)} values since the last reset is {wantv}')
    results.append((since, nb))
    log.add(pi, kind, nb, len(seen))
  if len(plan['ops']) > 1:
    res.probe('metric_repartition')
  return sum(nb for _, nb in results)


def execute(plan):
  res = Result()
  log = kernel.Log()
  viol = None
  k = plan['knobs']
  oi, op = -1, {}
  n = 0
  try:
    if k['kind'] == 'optimizer':
      w = OptWorld(plan, res, log)
      try:
        for oi, op in enumerate(plan['ops']):
          w.step(oi, op)
      finally:
        n = w.steps
    else:
      n = run_metric(plan, res, log)
  except Violation as v:
    viol = dict(kind=v.kind, detail=v.detail)
  except (kernel.HarnessError, RecursionError):
    raise
  except Exception as e:  # noqa: BLE001
    if not kernel.through_sut(e, markers=('/flax/',)):
      raise
    viol = dict(kind='unexpected-exception', detail=f'op {oi} {op.get("op")}: {type(e).__name__}: {str(e)[:500]}')
  res.steps = n
  res.ops = len(plan['ops'])
  res.digest = log.digest()
  res.nontrivial = n >= 2
  res.violation = viol
  return res
