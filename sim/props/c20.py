"""C20 - host-side data helpers: PrefetchIterator / prefetch_to_device under the thread scheduler.

pipeworld: instrumented source iterator -> real PrefetchIterator (threads simulated by
sim.sched) or real prefetch_to_device (device transport stubbed) -> consumer script, every
delivered batch additionally pushed through the real pad_shard_unpad.
"""
from __future__ import annotations

import sys

from sim import kernel
from sim.kernel import Result, Violation, stream

PROP = 'C20'
TIERS = {
  'quick': dict(runs=120000, deadline=45, workers=16),
  'thorough': dict(runs=3000000, deadline=780, workers=16),
}
SELFTEST_RUNS = 600
RULE = (
  'each run = one pipeline lifetime generated from the run seed: source length n in 0..6, optional source failure '
  '(RuntimeError/KeyError/custom Exception/StopIteration-subclass-free) at position f in 0..n, PrefetchIterator(buffer 1..4) under the '
  'simulated threading module or prefetch_to_device(size 1..4) over the stub transport, consumer script of next/close '
  'calls, schedule chosen by the sched stream at every synchronisation point (and at every source line of '
  'prefetch_iterator.py in line-level runs). Non-trivial = at least one real scheduling choice deviated from '
  '"keep running the current task" or a source fault fired; distinct = distinct event-log digest (observations + '
  'scheduler log).'
)
STEP_UNIT = 'scheduler steps (one per intercepted synchronisation call, source pull or traced line)'
COMPONENTS = {
  'real': ['flax/training/prefetch_iterator.py (PrefetchIterator, all of it)', 'flax/jax_utils.py prefetch_to_device, pad_shard_unpad'],
  'stub': ['threading.Thread/Condition -> sim.sched.SimThreading (scheduler-owned)', 'jax.device_put_sharded -> in-process stack (removed from jax 0.11)', 'jax.local_device_count -> per-run device count knob', 'source iterator -> instrumented list with injected failure'],
}
ASSUMPTIONS = [
  'SimCondition implements threading.Condition semantics (RLock ownership, wait releases and re-acquires, notify_all wakes all waiters); checked by sim/selftests.py against threading.Condition',
  'pre-emption is modelled at synchronisation calls, source pulls and (line-level runs) source lines of prefetch_iterator.py; not between bytecodes',
  'after close() only order/uniqueness of delivered items and termination are asserted (the property says nothing about close)',
]
PROBES = ['producer_done_before_ctor_returned', 'error_first_item', 'consumer_blocked', 'producer_blocked_full', 'close_while_producer_waiting', 'line_level_runs', 'ptd_runs', 'psu_padded', 'helpers_runs', 'source_reuses_buffer', 'psu_variants']

_flax = None


def setup_worker(w, tier):
  global _flax, np, jax, jnp, pi_mod, jax_utils
  import sim.jaxcompat as jc

  _flax = jc.import_flax()
  import numpy as np
  import jax
  import jax.numpy as jnp
  import warnings
  from flax.training import prefetch_iterator as pi_mod
  from flax import jax_utils

  warnings.simplefilter('ignore')


class SrcErrA(RuntimeError):
  pass


class SrcErrB(Exception):
  pass


class FalsyErr(Exception):
  """An exception object whose truth value is False (it has a length, and the length is 0)."""

  def __len__(self):
    return 0


class BaseErr(BaseException):
  """Not an Exception subclass - like asyncio.CancelledError, pytest's Failed / Skipped, SystemExit."""


ERR_CLASSES = {'RuntimeError': RuntimeError, 'KeyError': KeyError, 'ValueError': ValueError, 'SrcErrA': SrcErrA, 'SrcErrB': SrcErrB, 'OSError': OSError, 'FalsyErr': FalsyErr, 'BaseErr': BaseErr}


def generate(rs, tier):
  g = stream(rs, 'gen')
  if g.random() < 0.004:
    # ride-along workload (no schedule or fault dimension, not what this check is claimed for): the pure reshape helpers
    nd = g.choice([2, 3, 3])
    shape = [g.randrange(1, 4) for _ in range(nd)]
    axis = g.sample(range(nd), g.randrange(1, nd + 1))
    return dict(engine='pipeworld', knobs=dict(kind='helpers', shape=shape, axis=axis, keepdims=g.random() < 0.5, devices=g.choice([1, 2, 4]), classes=g.randrange(2, 6), fill=g.randrange(5),
                                                    tail=g.choice([[2], [2], [], [0], [3, 0]]), label_dtype=g.choice(['int32', 'int32', 'uint8', 'int8', 'int16']), big_classes=g.choice([None, None, 200, 300])), ops=[])
  kind = 'PrefetchIterator' if g.random() < 0.8 else 'prefetch_to_device'
  n = g.choice([0, 1, 1, 2, 2, 3, 3, 4, 5, 6])
  fail_at = g.randrange(0, n + 1) if g.random() < 0.5 else None
  knobs = dict(
    kind=kind,
    buffer=g.choice([1, 1, 2, 2, 3, 4]),
    n=n,
    fail_at=fail_at,
    fail_cls=g.choice(sorted(ERR_CLASSES)),
    line_level=(kind == 'PrefetchIterator' and g.random() < 0.35),
    devices=g.choice([1, 2, 3, 4, 8]),
    min_device_batch=g.choice([None, None, 1, 2, 5]),
    batch_sizes=[g.randrange(1, 12) for _ in range(n)],
    stay_bias=g.choice([0.0, 0.5, 0.8]),
  )
  if fail_at is not None and g.random() < 0.4:
    knobs['resumable'] = True
  if kind == 'prefetch_to_device' and knobs['fail_cls'] == 'BaseErr':
    # a generator has no thread to lose: a BaseException simply unwinds through it (nothing is promised to be delivered first)
    knobs['fail_cls'] = 'SrcErrB'
  if kind == 'prefetch_to_device' and g.random() < 0.35:
    # the source refills ONE host buffer in place for every item (legal: the device transfer copies it)
    knobs['reuse_buffer'] = True
    knobs['batch_sizes'] = [knobs['batch_sizes'][0] if n else 1] * n
  ops = []
  k = g.randrange(0, n + 4)
  for _ in range(k):
    ops.append('next')
  if kind == 'PrefetchIterator' and g.random() < 0.3:
    ops.insert(g.randrange(0, len(ops) + 1), 'close')
    ops += ['next'] * g.randrange(0, 3)
  return dict(engine='pipeworld', knobs=knobs, ops=ops, schedule_seed=g.getrandbits(48))


SHRINK_LISTS = ['ops']


def simplify(plan):
  k = plan['knobs']
  if k['kind'] == 'helpers':
    return
  sch = plan.get('schedule')
  if sch:
    yield dict(plan, schedule=[])
    yield dict(plan, schedule=sch[: len(sch) // 2])
    yield dict(plan, schedule=sch[:-1])
    nz = [i for i, c in enumerate(sch) if c]
    for i in nz[:80]:
      c = list(sch)
      c[i] = 0
      yield dict(plan, schedule=c)
    for i in nz[:40]:
      yield dict(plan, schedule=sch[:i] + sch[i + 1 :])
  if k['line_level']:
    yield dict(plan, knobs=dict(k, line_level=False))
  if k['n'] > 0 and (k['fail_at'] is None or k['fail_at'] < k['n']):
    yield dict(plan, knobs=dict(k, n=k['n'] - 1, batch_sizes=k['batch_sizes'][:-1]))
  if k['fail_at']:
    yield dict(plan, knobs=dict(k, fail_at=k['fail_at'] - 1))
  if k['buffer'] > 1:
    yield dict(plan, knobs=dict(k, buffer=k['buffer'] - 1))
  if k['devices'] > 1:
    yield dict(plan, knobs=dict(k, devices=1))
  if k['min_device_batch']:
    yield dict(plan, knobs=dict(k, min_device_batch=None))
  if any(b > 1 for b in k['batch_sizes']):
    yield dict(plan, knobs=dict(k, batch_sizes=[1] * len(k['batch_sizes'])))
  if k['fail_cls'] != 'RuntimeError' and k['fail_at'] is not None:
    yield dict(plan, knobs=dict(k, fail_cls='RuntimeError'))


def signature(plan, v):
  k = plan['knobs']
  if k['kind'] == 'helpers':
    return dict(kind='helpers')
  return dict(kind=k['kind'], first_item=(k['fail_at'] == 0), has_close=('close' in plan['ops']))


class Source:
  def __init__(self, items, fail_at, exc, sched, res):
    self.items, self.fail_at, self.exc, self.sched, self.res = items, fail_at, exc, sched, res
    self.pos = 0
    self.pulls = 0
    self.reuse = None
    self.resumable = False

  def __iter__(self):
    return self

  def __next__(self):
    if self.sched is not None:
      self.sched.yield_('pull')
    self.pulls += 1
    if self.fail_at is not None and self.pos == self.fail_at:
      self.res.fault('source_exception')
      self.pos += 1  # a second pull after the failure ends the stream
      raise self.exc
    if self.pos >= len(self.items) or (self.fail_at is not None and self.pos > self.fail_at and not self.resumable):
      raise StopIteration
    if self.fail_at is not None and self.pos > self.fail_at:
      self.res.probe('pulled_after_source_error')
    x = self.items[self.pos]
    self.pos += 1
    if self.reuse is not None:
      np.copyto(self.reuse['x'], x['x'])
      return self.reuse
    return x


def _item(i, bs, d, ptd):
  base = np.arange(bs * 2, dtype=np.int32).reshape(bs, 2) + 1000 * (i + 1)
  if ptd:
    return {'x': np.stack([base + 100000 * j for j in range(d)])}
  return {'x': base}


def _ident(item):
  """index of an item, recovered from its values (items are unique by construction)."""
  x = np.asarray(item['x'])
  return int(x.reshape(-1)[0] % 100000) // 1000 - 1


def _scan_body(c, x):
  c2 = c * 2.0 + jnp.sum(x)  # order-sensitive carry
  if x.ndim:
    # position-sensitive: a ramp along the slice's FIRST axis (with keepdims a unit axis when axis 0 is scanned)
    return c2, x + c2 + jnp.arange(x.shape[0], dtype=jnp.float32).reshape((-1,) + (1,) * (x.ndim - 1))
  return c2, x + c2


def execute_helpers(plan):
  """scan_in_dim == nested Python loop over the chosen axes (in the given order); shard / stack_forest / onehot /
  unreplicate are the stated reshapes.  Pure functions: plain input generation, carried by this check as workload."""
  from flax.training import common_utils

  res = Result()
  k = plan['knobs']
  viol = None
  try:
    shape, axis = tuple(k['shape']), tuple(k['axis'])
    xs = (np.arange(int(np.prod(shape)), dtype=np.float32).reshape(shape) % 7) + k['fill']

    # ONE body function object for the whole process (a warm per-function cache must not carry the axes of an earlier
    # call over), sensitive to the order of the iterations (carry) and, with keepdims, to WHERE the kept unit axes sit;
    # a second call in the same history scans other axes of the same count
    import itertools

    alt = tuple(reversed(axis)) if len(axis) > 1 else ((axis[0] + 1) % len(shape),)
    for ax in (axis, alt):
      try:
        c, ys = jax_utils.scan_in_dim(_scan_body, jnp.zeros((), jnp.float32), jnp.asarray(xs), axis=ax, keepdims=k['keepdims'])
      except Exception as e:  # noqa: BLE001
        if not kernel.through_sut(e):
          raise
        raise Violation('scan-in-dim-mismatch', f'scan_in_dim(axis={ax}, keepdims={k["keepdims"]}) on shape {shape} raised {type(e).__name__}: {str(e)[:160]}')
      # reference: nested Python loops, outermost = ax[0]
      cref = np.float32(0)
      yref = np.zeros(shape, np.float32)
      for idx in itertools.product(*[range(shape[a]) for a in ax]):
        sl = [slice(None)] * len(shape)
        for a, i in zip(ax, idx):
          sl[a] = i
        x = xs[tuple(sl)]
        if k['keepdims']:
          x = x.reshape([1 if a in ax else shape[a] for a in range(len(shape))])
        cref = np.float32(cref * 2.0 + x.sum())
        y = x + cref + np.arange(x.shape[0], dtype=np.float32).reshape((-1,) + (1,) * (x.ndim - 1)) if x.ndim else x + cref
        yref[tuple(sl)] = y.reshape(xs[tuple(sl)].shape)
      if float(c) != float(cref) or np.asarray(ys).reshape(shape).tobytes() != yref.tobytes():
        raise Violation('scan-in-dim-mismatch', f'scan_in_dim(axis={ax}, keepdims={k["keepdims"]}) on shape {shape}: carry {float(c)} vs loop {float(cref)}, outputs equal: {np.asarray(ys).reshape(shape).tobytes() == yref.tobytes()}')
    d = k['devices']
    real_ldc = jax.local_device_count
    jax.local_device_count = lambda *a, **kw: d
    try:
      tail = tuple(k.get('tail', [2]))
      b = np.arange(d * 3 * int(np.prod(tail)), dtype=np.float32).reshape((d * 3,) + tail)
      try:
        sh = common_utils.shard({'x': b})['x']
      except Exception as e:  # noqa: BLE001
        raise Violation('shard-mismatch', f'shard of shape {b.shape} with {d} devices raised {type(e).__name__}: {str(e)[:160]}')
      if sh.shape != (d, 3) + tail or np.asarray(sh).tobytes() != b.reshape((d, 3) + tail).tobytes():
        raise Violation('shard-mismatch', f'shard of shape {b.shape} with {d} devices gives shape {sh.shape}')
    finally:
      jax.local_device_count = real_ldc
    forest = [{'a': np.full((2,), i, np.float32), 'b': np.full((), -i, np.float32)} for i in range(3)]
    st = common_utils.stack_forest(forest)
    if np.asarray(st['a']).tolist() != [[0, 0], [1, 1], [2, 2]] or np.asarray(st['b']).tolist() != [0, -1, -2]:
      raise Violation('stack-forest-mismatch', 'stack_forest')
    labels = (np.arange(6) % k['classes']).reshape(2, 3)
    oh = np.asarray(common_utils.onehot(jnp.asarray(labels), k['classes']))
    if oh.shape != (2, 3, k['classes']) or not (oh.argmax(-1) == labels).all() or oh.sum() != 6:
      raise Violation('onehot-mismatch', 'onehot')
    if k.get('big_classes'):
      # narrow label dtypes with more classes than the dtype can count; out-of-range / negative labels give all-off rows
      ldt = np.dtype(k.get('label_dtype', 'int32'))
      nc = k['big_classes']
      raw = np.array([0, 3, 43, 44, 127, -100 if ldt.kind == 'i' else 255], dtype=ldt)
      oh = np.asarray(common_utils.onehot(jnp.asarray(raw), nc))
      want = np.zeros((len(raw), nc), np.float32)
      for i, lab in enumerate(raw.tolist()):
        if 0 <= lab < nc:
          want[i, lab] = 1.0
      if oh.shape != want.shape or oh.astype(np.float32).tobytes() != want.tobytes():
        raise Violation('onehot-mismatch', f'onehot({raw.tolist()} as {ldt}, {nc}): rows sum to {oh.sum(-1).tolist()}, hot classes {[np.nonzero(r)[0].tolist() for r in oh]}')
    rep = {'w': np.stack([np.arange(3.0)] * d)}
    if np.asarray(jax_utils.unreplicate(rep)['w']).tolist() != [0.0, 1.0, 2.0]:
      raise Violation('unreplicate-mismatch', 'unreplicate')
    res.probe('helpers_runs')
  except Violation as v:
    viol = dict(kind=v.kind, detail=v.detail)
  res.ops = 1
  res.steps = 1
  res.digest = kernel.digest(['helpers', k])
  res.nontrivial = False
  res.violation = viol
  return res


def execute(plan):
  from sim import sched as S

  if plan['knobs']['kind'] == 'helpers':
    return execute_helpers(plan)
  res = Result()
  log = kernel.Log()
  k = plan['knobs']
  ptd = k['kind'] == 'prefetch_to_device'
  d = k['devices']
  items = [_item(i, k['batch_sizes'][i], d, ptd) for i in range(k['n'])]
  exc = ERR_CLASSES[k['fail_cls']]('injected source failure') if k['fail_at'] is not None else None
  limit = k['n'] if k['fail_at'] is None else k['fail_at']
  if 'schedule' in plan and plan['schedule'] is not None:
    sc = S.Sched(schedule=plan['schedule'], step_cap=20000)
  else:
    sc = S.Sched(rng=stream(plan['schedule_seed'], 'sched'), step_cap=20000, stay_bias=k.get('stay_bias', 0.0))

  tracer = None
  if k['line_level'] and not ptd:
    res.probe('line_level_runs')
    fname = pi_mod.__file__

    def local(frame, event, arg):
      if event == 'line':
        sc.yield_('L%d' % frame.f_lineno)
      return local

    def tracer(frame, event, arg):
      if frame.f_code.co_filename == fname:
        return local
      return None

  src = Source(items, k['fail_at'], exc, None if ptd else sc, res)
  # a reader that fails on one corrupt record and would go on with the next one if asked again
  src.resumable = bool(k.get('resumable'))
  if k.get('reuse_buffer') and items:
    src.reuse = {'x': np.zeros_like(items[0]['x'])}
    res.probe('source_reuses_buffer')
  real_threading = pi_mod.threading
  real_ldc = jax.local_device_count
  obs = []
  viol = None
  it = None
  try:
    pi_mod.threading = S.SimThreading(sc, tracer)
    jax.local_device_count = lambda *a, **kw: d
    if tracer:
      sys.settrace(tracer)
    try:
      try:
        if ptd:
          res.probe('ptd_runs')
          it = jax_utils.prefetch_to_device(src, k['buffer'], devices=list(range(d)))
        else:
          it = pi_mod.PrefetchIterator(src, k['buffer'])
          if any(t['done'] for tid, t in sc.tasks.items() if tid != sc.main):
            res.probe('producer_done_before_ctor_returned')
        pos = 0  # next item index the consumer may legally see
        terminal = None  # None | 'stop' | 'err'
        closed = False
        for oi, op in enumerate(plan['ops']):
          s0 = sc.steps
          if op == 'close':
            if any(t.get('blocked_on') == 'cond.wait' for tid, t in sc.tasks.items() if tid != sc.main and not t['done']):
              res.probe('close_while_producer_waiting')
            it.close()
            closed = True
            log.add(oi, 'close')
            continue
          try:
            x = next(it)
            o = ('item', _ident(x))
          except StopIteration:
            o = ('stop',)
          except (S.Deadlock, S.StepCap, S.SimKill):
            raise
          except BaseException as e:  # noqa: BLE001
            o = ('err', type(e).__name__, e is exc)
          obs.append(o)
          log.add(oi, *o)
          if sc.steps - s0 > 1500:
            raise Violation('no-progress', f'next() #{oi} took {sc.steps - s0} scheduler steps')
          # ---- sequential specification
          if o[0] == 'item':
            if terminal:
              # (also after close(): once the consumer has been told that the iteration is over it stays over)
              raise Violation('item-after-termination', f'op {oi}: item {o[1]} after {terminal}{" (closed)" if closed else ""}; observed {obs}')
            if o[1] != pos:
              raise Violation('wrong-item', f'op {oi}: got item {o[1]}, expected item {pos}; observed {obs}')
            if pos >= limit:
              raise Violation('invented-item', f'op {oi}: item {o[1]} beyond the source ({limit} items); observed {obs}')
            # the delivered batch must hold the source values, and pad_shard_unpad must be transparent on it
            want = items[pos]['x']
            got = np.asarray(x['x'])
            if got.shape != want.shape or got.dtype != want.dtype or got.tobytes() != want.tobytes():
              raise Violation('item-corrupted', f'op {oi}: item {pos} differs from the source value')
            _check_psu(k, got if not ptd else got[0], res)
            pos += 1
          elif o[0] == 'stop':
            if not closed:
              if k['fail_at'] is not None and terminal != 'err' and not (ptd and terminal == 'err'):
                raise Violation('wrong-termination', f'op {oi}: StopIteration instead of {k["fail_cls"]} at position {k["fail_at"]}; observed {obs}')
              if pos < limit:
                raise Violation('lost-item', f'op {oi}: StopIteration after {pos} of {limit} items; observed {obs}')
            terminal = terminal or 'stop'
          else:
            if not o[2]:
              raise Violation('foreign-exception', f'op {oi}: {o[1]} is not the exception the source raised; observed {obs}')
            if k['fail_at'] is None:
              raise Violation('foreign-exception', f'op {oi}: error without a source failure; observed {obs}')
            if not closed:
              if pos < limit:
                raise Violation('lost-item', f'op {oi}: source error delivered after {pos} items but {limit} items preceded it; observed {obs}')
              if terminal == 'stop':
                raise Violation('wrong-termination', f'op {oi}: error after StopIteration; observed {obs}')
            if k['fail_at'] == 0:
              res.probe('error_first_item')
            terminal = 'err'
        # end of script
      except S.Deadlock as e:
        raise Violation('deadlock', f'{e}; observed {obs}')
      except S.StepCap as e:
        raise Violation('no-progress', f'{e}; observed {obs}')
    finally:
      sys.settrace(None)
      leaked = sc.shutdown()
      pi_mod.threading = real_threading
      jax.local_device_count = real_ldc
    if leaked:
      raise kernel.HarnessError(f'{leaked} simulated threads did not unwind')
  except Violation as v:
    viol = dict(kind=v.kind, detail=v.detail)
  for t in sc.tasks.values():
    if t.get('exc') is not None and viol is None:
      viol = dict(kind='producer-thread-died', detail=repr(t['exc']))
  for (who, why, nxt) in sc.log:
    if why == 'cond.wait':
      res.probe('consumer_blocked' if who == 'main' else 'producer_blocked_full')
  res.steps = sc.steps
  res.ops = len(plan['ops'])
  log.add('sched', [(a, b, c) for a, b, c in sc.log])
  res.digest = log.digest()
  res.sched_digest = kernel.digest(sc.trace) if not ptd else ''
  res.nontrivial = bool(res.faults) or any(sc.trace)
  res.violation = viol
  if viol is not None and 'schedule' not in plan:
    res.replay_plan = dict(plan, schedule=list(sc.trace))
  return res


def _check_psu(k, batch, res):
  try:
    return _check_psu_inner(k, batch, res)
  except (Violation, kernel.HarnessError):
    raise
  except Exception as e:  # noqa: BLE001 -- every generated call is legal: a batch of any size, any device count, any lower bound
    raise Violation('pad-shard-unpad-raises', f'batch {batch.shape[0]} devices {k["devices"]} min_device_batch {k["min_device_batch"]}: {type(e).__name__}: {str(e)[:200]}')


def _check_psu_inner(k, batch, res):
  """pad_shard_unpad(fn)(batch) == fn(batch) for a per-example integer function; d devices, optional min_device_batch."""
  d = k['devices']

  def fn(params, x):
    assert x.shape[0] == d, x.shape
    return {'y': x * 3 + params, 'z': x.sum(-1)}

  b = batch.shape[0]
  variant = (b + d + (k['min_device_batch'] or 0)) % 4
  mdb = k['min_device_batch']
  if variant == 1:
    # two batched positional pytrees, nothing static
    def fn2(x, t):
      assert x.shape[0] == d and t['m'].shape[0] == d
      return {'y': x * 3 + t['m'], 'z': x.sum(-1)}

    out = jax_utils.pad_shard_unpad(fn2, static_argnums=())(batch, {'m': batch + 1}, min_device_batch=mdb)
    want = {'y': batch * 3 + batch + 1, 'z': batch.sum(-1)}
  elif variant == 2:
    # keyword arguments: one static by name, one batched
    def fn3(params, x, *, scale, mask):
      assert mask.shape[0] == d and scale == 2
      return {'y': x * scale + params, 'z': (x * mask).sum(-1)}

    out = jax_utils.pad_shard_unpad(fn3, static_argnames=('scale',))(7, batch, scale=2, mask=batch * 0 + 1, min_device_batch=mdb)
    want = {'y': batch * 2 + 7, 'z': batch.sum(-1)}
  elif variant == 3:
    # static_return: the (device, per-device-batch, ...) result is handed back as is
    def fn4(params, x):
      return {'n': np.asarray(x.shape[:2])}

    out = jax_utils.pad_shard_unpad(fn4, static_return=True)(7, batch, min_device_batch=mdb)
    db = -(-b // d)
    if mdb and db < mdb:
      db = mdb
    if np.asarray(out['n']).tolist() != [d, db]:
      raise Violation('pad-shard-unpad-mismatch', f'batch {b} devices {d} min_device_batch {mdb}: wrapped function saw shape {np.asarray(out["n"]).tolist()}, expected {[d, db]}')
    res.probe('psu_variants')
    return
  else:
    w = jax_utils.pad_shard_unpad(fn)
    out = w(7, batch, min_device_batch=mdb)
    want = {'y': batch * 3 + 7, 'z': batch.sum(-1)}
  if variant:
    res.probe('psu_variants')
  if b % d or (k['min_device_batch'] and -(-b // d) < k['min_device_batch']):
    res.probe('psu_padded')
  for key in want:
    g = np.asarray(out[key])
    if g.shape != want[key].shape or g.tobytes() != want[key].astype(g.dtype).tobytes() or g.dtype != want[key].dtype:
      raise Violation('pad-shard-unpad-mismatch', f'batch {b} devices {d} min_device_batch {k["min_device_batch"]} key {key}: shape {g.shape} vs {want[key].shape}')
