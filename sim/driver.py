"""Parent-side driver: spawns workers, merges, confirms violations by replay, writes evidence."""
from __future__ import annotations

import json
import os
import shutil
import subprocess
import sys
import tempfile
import time

from sim import kernel
from sim.kernel import VERIF

CLAIMED = ['C01', 'C03', 'C04', 'C05', 'C09', 'C11', 'C15', 'C17', 'C18', 'C20']

COMMON_ASSUMPTIONS = [
  'harness-side jax compatibility shim sim/jaxcompat.py (4 aliases for APIs removed in jax 0.11; no flax code altered) is installed before `import flax`',
  'flax is imported from the working tree of /repo (asserted: flax.__file__ under /repo/ or $VERIF_FLAX_ROOT)',
  'a clean batch is sampling evidence over seeded histories/schedules/fault points, not proof',
]


def _nworkers(tiercfg):
  n = int(os.environ.get('VERIF_WORKERS', tiercfg.get('workers', 16)))
  return max(1, min(n, os.cpu_count() or 1))


def run_check(prop, tier, extra_env=None, write_evidence=True, quiet=False, runs_override=None):
  t0 = time.time()
  mod = kernel.load_prop(prop)
  cfg = dict(mod.TIERS[tier])
  if runs_override:
    cfg['runs'] = runs_override
  if os.environ.get('VERIF_RUNS'):
    cfg['runs'] = int(os.environ['VERIF_RUNS'])
  if os.environ.get('VERIF_DEADLINE'):
    cfg['deadline'] = float(os.environ['VERIF_DEADLINE'])
  seed = int(os.environ.get('VERIF_SEED', '0') or 0)
  nw = _nworkers(cfg)
  scratch = tempfile.mkdtemp(prefix=f'verif-{prop}-')
  out = []

  def say(s):
    out.append(s)
    if not quiet:
      print(s, flush=True)

  try:
    results, errors = kernel.spawn_workers(prop, tier, seed, nw, cfg['runs'], cfg['deadline'], scratch=scratch, extra_env=extra_env)
    tot = kernel.merge(results)
    rc = 0
    if errors or tot['harness_errors']:
      for e in errors[:3]:
        say('HARNESS-ERROR ' + e.replace('\n', ' | ')[-2500:])
      for e in tot['harness_errors'][:3]:
        say(f"HARNESS-ERROR property={prop} index={e['index']} {e['error']} :: " + e['tb'].replace('\n', ' | ')[-2500:])
      rc = 2
    known = kernel.load_known()
    os.makedirs(os.path.join(VERIF, 'replays'), exist_ok=True)
    seen = set()
    n_viol = 0
    known_seen = {}
    for v in tot['violations']:
      key = (v['kind'], kernel.canon(v.get('signature')))
      if key in seen:
        continue
      seen.add(key)
      plan = v['plan']
      path = os.path.join(VERIF, 'replays', f"{prop}-{v['run_seed']:016x}.json")
      with open(path, 'w') as f:
        json.dump(plan, f, indent=1, sort_keys=True, default=str)
      # a violation must replay exactly in a fresh interpreter before it is believed
      try:
        rr = kernel.replay_file(path, extra_env)
      except Exception as e:  # noqa: BLE001
        say(f'HARNESS-ERROR property={prop} replay failed for {path}: {e!r}'[:3000])
        rc = max(rc, 2)
        continue
      if not rr['violation'] or rr['violation']['kind'] != v['kind'] or rr['digest'] != plan['expect']['digest']:
        say(f"HARNESS-ERROR property={prop} nondeterministic: replay of {path} gave {rr} expected {plan['expect']}")
        rc = max(rc, 2)
        continue
      f = kernel.match_known(prop, v, known)
      if f is not None:
        if f['id'] not in known_seen:
          known_seen[f['id']] = path
          say(f"KNOWN-FINDING: property={prop} {f['id']}: {f['what']} (replay={path})")
        continue
      n_viol += 1
      say(f"VIOLATION property={prop} replay={path}")
      say(f"  kind={v['kind']} seed={seed} index={v['index']} run_seed={v['run_seed']:#x} ops={len(plan.get('ops', []))} (from {v.get('orig_ops')}) detail={v['detail'][:600]}")
      rc = max(rc, 1)
    wall = time.time() - t0
    if write_evidence:
      write_evidence_file(mod, prop, tier, seed, tot, wall, n_viol, known_seen, nw, cfg)
    rph = int(tot['runs'] / max(wall, 1e-9) * 3600)
    say(f"[{prop} {tier}] seed={seed} runs={tot['runs']} distinct_nontrivial={tot['distinct_nontrivial']} steps={tot['steps']} faults={json.dumps(tot['faults'], sort_keys=True)} distinct_schedules={tot['distinct_schedules']} runs_per_hour={rph} wall={wall:.1f}s workers={nw} violations={n_viol} known={sorted(known_seen)}")
    zero = [k for k in getattr(mod, 'PROBES', []) if not tot['probes'].get(k)]
    if zero:
      say(f'[{prop}] WARNING probes at zero: {zero}')
    if tot['runs'] == 0 and rc == 0:
      say('HARNESS-ERROR no runs executed')
      rc = 2
    return rc, tot, out
  finally:
    shutil.rmtree(scratch, ignore_errors=True)


def write_evidence_file(mod, prop, tier, seed, tot, wall, n_viol, known_seen, nw, cfg):
  os.makedirs(os.path.join(VERIF, 'evidence'), exist_ok=True)
  samples = []
  for s in tot['samples']:
    s = dict(s)
    s.pop('_faulted', None)
    samples.append(s)
  cov = dict(
    evaluations=tot['runs'],
    distinct_nontrivial=tot['distinct_nontrivial'],
    rule=mod.RULE,
    samples=samples,
    exhaustive=False,
    nontrivial_runs=tot['nontrivial'],
    runs_per_hour=int(tot['runs'] / max(wall, 1e-9) * 3600),
    seeds_per_hour=int(tot['runs'] / max(wall, 1e-9) * 3600),
    simulated_time_steps=tot['steps'],
    simulated_time_unit=getattr(mod, 'STEP_UNIT', 'scheduler steps / intercepted operations'),
    ops_executed=tot['ops'],
    faults_fired=tot['faults'],
    distinct_schedules=tot['distinct_schedules'],
    distinct_measure=getattr(mod, 'DISTINCT_MEASURE', 'distinct sha256 digests of the per-run event log (op kinds, abstract outcomes, scheduler choices, fired faults)'),
    probes=tot['probes'],
    probes_at_zero=[k for k in getattr(mod, 'PROBES', []) if not tot['probes'].get(k)],
    components=mod.COMPONENTS,
    known_findings_seen=sorted(known_seen),
    known_finding_hits=tot.get('known_hits', {}),
    workers=nw,
    planned_runs=cfg['runs'],
    deadline_hit=bool(tot.get('deadline_hit')),
    worker_import_s=round(tot.get('import_s', 0.0), 2),
  )
  ev = dict(
    property_id=prop,
    tier=tier,
    seed=seed,
    level='exploration',
    coverage=cov,
    assumptions=COMMON_ASSUMPTIONS + list(getattr(mod, 'ASSUMPTIONS', [])),
    wall_s=round(wall, 2),
    violations=n_viol,
  )
  path = os.path.join(VERIF, 'evidence', f'{prop}.json')
  tmp = path + '.tmp'
  with open(tmp, 'w') as f:
    json.dump(ev, f, indent=1, sort_keys=True, default=str)
  os.replace(tmp, path)


# --------------------------------------------------------------------------
# self-tests


def selftest_determinism(prop, n=200):
  """Same run seeds, executed in different processes / worker counts / hash seeds, must give identical digests."""
  mod = kernel.load_prop(prop)
  n = int(os.environ.get('VERIF_SELFTEST_RUNS', getattr(mod, 'SELFTEST_RUNS', n)))
  seed = int(os.environ.get('VERIF_SEED', '0') or 0)
  cfgs = [(16, '0'), (5, '12345'), (1, '777') if n <= 60 else (3, '777')]
  maps = []
  for nw, hs in cfgs:
    scratch = tempfile.mkdtemp(prefix=f'verif-st-{prop}-')
    try:
      results, errors = kernel.spawn_workers(prop, 'quick', seed, nw, n, 3600, mode='digests', hashseed=hs, scratch=scratch)
      if errors:
        print('HARNESS-ERROR ' + ' || '.join(errors)[-3000:])
        return 2
      tot = kernel.merge(results)
      if tot['harness_errors']:
        print('HARNESS-ERROR', tot['harness_errors'][0]['error'], tot['harness_errors'][0]['tb'][-2000:])
        return 2
      maps.append(tot['per_index'])
    finally:
      shutil.rmtree(scratch, ignore_errors=True)
  bad = [i for i in maps[0] if any(m.get(i) != maps[0][i] for m in maps[1:])]
  if any(len(m) != len(maps[0]) for m in maps):
    print(f'SELFTEST {prop} determinism: run counts differ {[len(m) for m in maps]}')
    return 2
  if bad:
    print(f'SELFTEST {prop} determinism FAILED for run indices {sorted(bad, key=int)[:20]} ({len(bad)} of {len(maps[0])})')
    return 2
  print(f'SELFTEST {prop} determinism ok: {len(maps[0])} run seeds x {len(cfgs)} executions (workers/hashseed {cfgs}) all digests equal')
  return 0


def _patches_for(prop):
  res = []
  d = os.path.join(VERIF, 'mutants', prop)
  if os.path.isdir(d):
    for f in sorted(os.listdir(d)):
      if f.endswith('.patch') or f.endswith('.diff'):
        res.append((f'mutants/{prop}/{f}', os.path.join(d, f)))
  sd = os.path.join(VERIF, 'seeded')
  if os.path.isdir(sd):
    for name in sorted(os.listdir(sd)):
      meta = os.path.join(sd, name, 'meta.json')
      patch = os.path.join(sd, name, 'patch.diff')
      if os.path.exists(meta) and os.path.exists(patch):
        m = json.load(open(meta))
        if m.get('property') == prop or prop in m.get('also_checked_by', []):
          res.append((f'seeded/{name}', patch))
  return res


def make_scratch_flax(patch):
  """Copy of /repo's flax package outside /repo and /verif with `patch` applied; caller removes it."""
  base = os.environ.get('VERIF_SCRATCH') or tempfile.gettempdir()
  root = tempfile.mkdtemp(prefix='verif-mut-', dir=base)
  shutil.copytree('/repo/flax', os.path.join(root, 'flax'), ignore=shutil.ignore_patterns('__pycache__'))
  p = subprocess.run(['patch', '-p1', '--no-backup-if-mismatch', '-d', root, '-i', patch], capture_output=True, text=True)
  if p.returncode != 0:
    shutil.rmtree(root, ignore_errors=True)
    raise kernel.HarnessError(f'patch {patch} does not apply: {p.stdout} {p.stderr}')
  return root


def selftest_mutants(prop, names, tier='quick'):
  """Sensitivity: each known breakage must be detected within the tier's budget."""
  patches = _patches_for(prop)
  if names:
    patches = [p for p in patches if any(n in p[0] for n in names)]
  missed = []
  for label, patch in patches:
    root = make_scratch_flax(patch)
    try:
      t0 = time.time()
      rc, tot, out = run_check(prop, tier, extra_env={'VERIF_FLAX_ROOT': root, 'VERIF_SHRINK_S': '10'}, write_evidence=False, quiet=True)
      kinds = sorted({v['kind'] for v in tot['violations']})
      viol_lines = [l for l in out if l.startswith('VIOLATION')]
      # caught = the check exits non-zero AND prints at least one violation that replayed exactly in a fresh interpreter;
      # further violations of the same run that did not replay (state spread over many earlier runs of a worker, which a
      # prelude cannot rebuild) are reported next to it, they do not undo the detection
      status = 'CAUGHT' if rc in (1, 2) and viol_lines else ('HARNESS-ERROR' if rc == 2 else 'MISSED')
      extra = ' (+ violations that did not replay)' if status == 'CAUGHT' and rc == 2 else ''
      print(f'MUTANT {label}: {status}{extra} kinds={kinds} runs={tot["runs"]} wall={time.time()-t0:.0f}s', flush=True)
      if status != 'CAUGHT':
        missed.append(label)
        for l in out:
          if l.startswith('HARNESS-ERROR'):
            print('   ' + l[:1500])
    finally:
      shutil.rmtree(root, ignore_errors=True)
  print(f'SELFTEST {prop} sensitivity: {len(patches) - len(missed)}/{len(patches)} caught; missed={missed}')
  return 0 if not missed else 3


def main(argv):
  if not argv:
    print(__doc__)
    return 2
  if argv[0] == '--replay':
    rr = kernel.replay_file(argv[1])
    plan = json.load(open(argv[1]))
    print(json.dumps(rr, sort_keys=True))
    exp = plan.get('expect')
    if rr['violation']:
      same = exp and rr['violation']['kind'] == exp['kind'] and rr['digest'] == exp['digest']
      print(f"VIOLATION property={plan['property']} replay={argv[1]}" + (' (reproduced exactly)' if same else ' (differs from recorded expectation)'))
      return 1
    print('replay: no violation')
    return 0
  if argv[0] == '--selftest':
    return selftest_determinism(argv[1])
  if argv[0] == '--mutants':
    tier = os.environ.get('VERIF_TIER', 'quick')
    return selftest_mutants(argv[1], argv[2:], tier)
  if argv[0] == '--setup':
    return setup()
  prop = argv[0]
  tier = argv[1] if len(argv) > 1 else os.environ.get('VERIF_TIER', 'quick')
  if tier not in ('quick', 'thorough'):
    tier = 'quick'
  if tier == 'thorough' and not os.environ.get('VERIF_SKIP_SELFTEST'):
    # gate the deep run on the self-tests: determinism of a sample of this batch's seeds in three process layouts,
    # and conformance of the stubs this engine relies on
    os.environ['VERIF_SELFTEST_RUNS'] = os.environ.get('VERIF_SELFTEST_RUNS', '48')
    if selftest_determinism(prop) != 0:
      print(f'HARNESS-ERROR property={prop} determinism self-test failed; the deep run was not started')
      return 2
    which = {'C11': 'disk', 'C20': 'cond'}.get(prop)
    if which:
      p = subprocess.run([sys.executable, os.path.join(VERIF, 'sim', 'selftests.py'), which, '150'], capture_output=True, text=True, env=kernel.env_for_worker())
      print((p.stdout.strip().splitlines() or ['(no output)'])[-1])
      if p.returncode != 0:
        print(f'HARNESS-ERROR property={prop} stub conformance self-test failed: {p.stdout[-1500:]}')
        return 2
  rc, tot, out = run_check(prop, tier)
  return rc


def setup():
  os.makedirs(os.path.join(VERIF, 'evidence'), exist_ok=True)
  os.makedirs(os.path.join(VERIF, 'replays'), exist_ok=True)
  p = subprocess.run([sys.executable, '-c', 'import sys; sys.path.insert(0, %r); import sim.jaxcompat as j; f=j.import_flax(); import flax.linen, flax.nnx, optax, orbax.checkpoint; print("setup ok", f.__file__)' % VERIF], capture_output=True, text=True, env=kernel.env_for_worker())
  print(p.stdout.strip()[-500:] or p.stderr.strip()[-1500:])
  return p.returncode
