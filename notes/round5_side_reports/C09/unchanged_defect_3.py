"""Unchanged-tree defect: distinct sibling names / distinct counts can return the SAME key.

flax/core/scope.py::_fold_in_static hashes the static suffix (module path +
per-scope count) with SHA-1 but keeps only the first 4 bytes
(`hash_int = int.from_bytes(d[:4], ...)`) and folds that 32 bit number into the
seed key.  Two different suffixes whose truncated hashes agree therefore give
the same key, for either setting of flax_fix_rng_separator.  With ~10^5
candidates the birthday bound is reached, and concrete legal inputs are easy
to find (pairs below were found by brute force over the hash only):

  separator flag off: siblings 'layer_48189' / 'layer_130161' (first draw),
                      draws no. 41790 and 50160 of one scope and stream
  separator flag on : siblings 'layer_47916' / 'layer_64391' (first draw),
                      draws no. 16444 and 48719 of one scope and stream

This violates "different counts ... different sibling names ... give different
keys" / "within a run no two draws return the same key".

Run: python unchanged_defect_3.py /repo
"""
import sys
sys.path.insert(0, '/verif/seeded'); import compat  # noqa
sys.path.insert(0, sys.argv[1] if len(sys.argv) > 1 else '/repo')
import jax, jax.numpy as jnp, numpy as np
import flax, flax.linen as nn
from flax.configurations import temp_flip_flag

print('flax from', flax.__file__)
kd = lambda k: tuple(np.asarray(jax.random.key_data(k)).tolist())
bad = False


def siblings(names):
  class Parent(nn.Module):
    @nn.compact
    def __call__(self, x):
      return [nn.Dense(4, name=n)(x) for n in names]
  variables = Parent().init(jax.random.PRNGKey(0), jnp.ones((1, 3)))
  return [np.asarray(variables['params'][n]['kernel']) for n in names]


def draws(counts):
  class Root(nn.Module):
    @nn.compact
    def __call__(self):
      out = {}
      for c in range(1, max(counts) + 1):
        k = self.make_rng('dropout')
        if c in counts:
          out[c] = kd(k)
      return out
  return Root().apply({}, rngs={'dropout': jax.random.PRNGKey(0)})


for flag, names, counts in (
    (False, ('layer_48189', 'layer_130161'), (41790, 50160)),
    (True, ('layer_47916', 'layer_64391'), (16444, 48719)),
):
  with temp_flip_flag('fix_rng_separator', flag):
    ka, kb = siblings(names)
    same = np.array_equal(ka, kb)
    print(f'flax_fix_rng_separator={flag}: Dense kernels of siblings {names[0]!r} and {names[1]!r} '
          f'{"are IDENTICAL (same init key)" if same else "differ"}')
    bad |= same
    d = draws(counts)
    same = d[counts[0]] == d[counts[1]]
    print(f'flax_fix_rng_separator={flag}: draws no. {counts[0]} and {counts[1]} of one stream in one scope: '
          f'{d[counts[0]]} vs {d[counts[1]]} {"SAME KEY" if same else "differ"}')
    bad |= same
print('DEFECT PRESENT' if bad else 'no defect observed')
sys.exit(1 if bad else 0)
