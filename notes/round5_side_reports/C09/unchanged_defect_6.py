"""Unchanged-tree defect (minor, unusual input): the RNG-separator fix does not separate names containing NUL.

With flax_fix_rng_separator enabled _fold_in_static writes b'\\0' before every
path element, but the elements themselves are not escaped or length-prefixed,
so a module name that contains '\\0' (module names are arbitrary Python
strings, nothing rejects it) makes two different paths hash the same bytes:
path ('a', 'b') and path ('a\\0b',) both give \\0a\\0b\\0\\x01 for their first
draw.  "With the RNG-separator fix enabled any two different paths give
different keys" does not hold for such names.

Run: python unchanged_defect_6.py /repo
"""
import sys
sys.path.insert(0, '/verif/seeded'); import compat  # noqa
sys.path.insert(0, sys.argv[1] if len(sys.argv) > 1 else '/repo')
import jax, numpy as np
import flax, flax.linen as nn
from flax.configurations import temp_flip_flag

print('flax from', flax.__file__)
kd = jax.random.key_data


class Leaf(nn.Module):
  @nn.compact
  def __call__(self):
    return kd(self.make_rng('dropout'))


class Mid(nn.Module):
  @nn.compact
  def __call__(self):
    return Leaf(name='b')()


class Top(nn.Module):
  @nn.compact
  def __call__(self):
    return Mid(name='a')(), Leaf(name='a\x00b')()     # paths a/b and 'a\0b'


with temp_flip_flag('fix_rng_separator', True):
  k1, k2 = Top().apply({}, rngs={'dropout': jax.random.PRNGKey(0)})
print("path ('a', 'b')  :", np.asarray(k1))
print("path ('a\\0b',)   :", np.asarray(k2))
bad = np.array_equal(k1, k2)
print('DEFECT PRESENT: two different paths share a key although the separator fix is enabled' if bad else 'no defect observed')
sys.exit(1 if bad else 0)
