"""Unchanged-tree defect (NNX): reseeding with a legacy uint32 key works only once.

nnx.Rngs(...) accepts legacy `jax.random.PRNGKey` arrays (dtype uint32, shape
(2,)) and wraps them with jax.random.wrap_key_data, so the stream key is a
typed scalar key.  nnx.reseed(...) accepts the same kind of value ("the keys
can be either integers or jax arrays") but stores it unwrapped:

  * after reseed(model, dropout=jax.random.PRNGKey(42)) the stream hands out raw
    uint32[2] arrays instead of typed keys (a different kind of value from
    the same stream with the same seed), and
  * the stream key now has shape (2,), so every later reseed of that stream
    raises "Cannot reseed stream 'dropout' with a non-scalar key": the stream
    can no longer be restarted ("reseeding restarts it" fails for the second
    reseed).  flax.nnx.bridge.ToLinen reseeds with the keys of the linen apply
    call on every apply, which are legacy keys whenever the user passes
    jax.random.PRNGKey.

Run: python unchanged_defect_4.py /repo
"""
import sys
sys.path.insert(0, '/verif/seeded'); import compat  # noqa
sys.path.insert(0, sys.argv[1] if len(sys.argv) > 1 else '/repo')
import jax, jax.numpy as jnp, numpy as np
import flax
from flax import nnx

print('flax from', flax.__file__)
bad = False
seed = jax.random.PRNGKey(42)            # legacy key, accepted by nnx.Rngs
rngs = nnx.Rngs(dropout=seed)
first = rngs.dropout()
print('after Rngs(dropout=PRNGKey(42))   : draw 0 is', first.dtype, first.shape)
nnx.reseed(rngs, dropout=seed)           # restart the stream with the same seed
again = rngs.dropout()
print('after reseed(dropout=PRNGKey(42)) : draw 0 is', again.dtype, again.shape)
if again.dtype != first.dtype or again.shape != first.shape:
  print('DEFECT: the restarted stream hands out a different kind of key '
        '(raw key data instead of a typed key); jnp.array_equal(first, again) cannot even compare them')
  bad = True
try:
  nnx.reseed(rngs, dropout=seed)         # restart it once more
  print('second reseed ok, count =', rngs.dropout.count.value)
except ValueError as e:
  print('DEFECT: second reseed raises ValueError:', e)
  bad = True
print('DEFECT PRESENT' if bad else 'no defect observed')
sys.exit(1 if bad else 0)
