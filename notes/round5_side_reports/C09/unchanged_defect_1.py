"""Unchanged-tree defect: nn.cond / nn.switch (lift.cond / lift.switch) replay a key.

Each branch of the conditional starts from the rng counters of the call site
(_branch_rng_counter_reset in flax/core/lift.py), but after the conditional the
shared counters are simply left where the LAST traced branch left them.  When
the branches draw a different number of keys (true branch: 2 draws, false
branch: 1 draw), the first draw AFTER the conditional gets count n+2 - exactly
the count (and scope, and stream) of the second draw of the true branch.  With
pred=True both draws happen in the same run and return the same key, which
violates "within a run no two draws return the same key".

Run: python unchanged_defect_1.py /repo
"""
import sys
sys.path.insert(0, '/verif/seeded'); import compat  # noqa
sys.path.insert(0, sys.argv[1] if len(sys.argv) > 1 else '/repo')
import jax, jax.numpy as jnp, numpy as np
import flax, flax.linen as nn

kd = jax.random.key_data


class M(nn.Module):
  @nn.compact
  def __call__(self, x, pred):
    def true_fn(mdl, x):
      mdl.make_rng('dropout')
      return kd(mdl.make_rng('dropout'))       # 2nd draw of the true branch
    def false_fn(mdl, x):
      return kd(mdl.make_rng('dropout'))       # only draw of the false branch
    in_branch = nn.cond(pred, true_fn, false_fn, self, x)
    after = kd(self.make_rng('dropout'))       # first draw after the cond
    return in_branch, after


class S(nn.Module):
  @nn.compact
  def __call__(self, x, idx):
    def b0(mdl, x):
      mdl.make_rng('dropout'); mdl.make_rng('dropout')
      return kd(mdl.make_rng('dropout'))       # 3rd draw
    def b1(mdl, x):
      return kd(mdl.make_rng('dropout'))
    in_branch = nn.switch(idx, [b0, b1, b1], self, x)
    self.make_rng('dropout')
    after = kd(self.make_rng('dropout'))       # 2nd draw after the switch
    return in_branch, after


print('flax from', flax.__file__)
bad = False
in_branch, after = M().apply({}, jnp.ones(3), True, rngs={'dropout': jax.random.PRNGKey(0)})
print('cond  : key drawn inside the taken (true) branch:', np.asarray(in_branch))
print('cond  : key drawn right after the cond          :', np.asarray(after))
if np.array_equal(in_branch, after):
  print('DEFECT: the draw after nn.cond returns the key already handed out inside the taken branch')
  bad = True
in_branch, after = S().apply({}, jnp.ones(3), 0, rngs={'dropout': jax.random.PRNGKey(0)})
print('switch: key drawn inside the taken branch 0     :', np.asarray(in_branch))
print('switch: 2nd key drawn after the switch          :', np.asarray(after))
if np.array_equal(in_branch, after):
  print('DEFECT: a draw after nn.switch returns the key already handed out inside the taken branch')
  bad = True
print('DEFECT PRESENT' if bad else 'no defect observed')
sys.exit(1 if bad else 0)
