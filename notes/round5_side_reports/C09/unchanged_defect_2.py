"""Unchanged-tree defect: keys after an nn.jit call depend on process history.

lift.jit keeps, per transformed function, a cache {fingerprint: rng-counter
delta} (_restore_rng_counters in flax/core/lift.py) and on every later call
with the same fingerprint it SETS the scope's rng counters to
"counters before the call + cached delta".  The fingerprint is (mutable
filter, module fingerprint); it does not contain the static arguments of the
jitted method.  With nn.jit(Block, static_argnums=(2,)) and a static `train`
flag, Block draws 0 keys for train=False and 2 keys for train=True:

  * fresh process: apply(train=True)          -> counters advance by 2
  * other history: apply(train=False) first (delta 0 cached), then the very
    same apply(train=True) (same seeds, same module, same inputs): the method
    is re-traced because the static arg differs, draws its 2 keys, and then
    the counters are rewound by the stale delta 0.

So the second call of the block in the same apply gets different keys
depending on what was applied earlier in the process: "the same program with
the same seeds yields the same keys" is violated.

nn.fold_rngs shares the mechanism and does not even need a static argument
(second half of this script).

Run: python unchanged_defect_2.py /repo
"""
import sys
sys.path.insert(0, '/verif/seeded'); import compat  # noqa
sys.path.insert(0, sys.argv[1] if len(sys.argv) > 1 else '/repo')
import jax, jax.numpy as jnp, numpy as np
import flax, flax.linen as nn

kd = jax.random.key_data


class Block(nn.Module):
  @nn.compact
  def __call__(self, x, train):
    if train:
      a = self.make_rng('dropout'); b = self.make_rng('dropout')
      return x, kd(a), kd(b)
    return x, jnp.zeros(2, jnp.uint32), jnp.zeros(2, jnp.uint32)


def make():
  JitBlock = nn.jit(Block, static_argnums=(2,))

  class Outer(nn.Module):
    @nn.compact
    def __call__(self, x, train):
      blk = JitBlock(name='blk')
      _, a, b = blk(x, train)
      _, c, d = blk(x, train)      # second call of the same block
      return [np.asarray(k) for k in (a, b, c, d)]

  return Outer()


print('flax from', flax.__file__)
rngs = {'dropout': jax.random.PRNGKey(0)}
x = jnp.ones(3)
fresh = make().apply({}, x, True, rngs=rngs)
model = make()
model.apply({}, x, False, rngs=rngs)          # earlier, unrelated eval-mode apply
later = model.apply({}, x, True, rngs=rngs)   # the same program and seeds as `fresh`
bad = False
for i, (f, l) in enumerate(zip(fresh, later)):
  same = np.array_equal(f, l)
  print(f'draw {i}: fresh process {f}   after an eval-mode apply {l}   {"same" if same else "DIFFERENT"}')
  bad |= not same
if bad:
  print('DEFECT: apply(train=True) hands out different keys depending on an earlier apply(train=False)')

# The same stale delta exists in nn.fold_rngs (lift.fold_rngs), which is not even jitted: the
# wrapped method runs in Python on every call, so an ordinary (non-static) Python bool is enough.
def make_folded():
  FoldBlock = nn.fold_rngs(Block)

  class Outer(nn.Module):
    @nn.compact
    def __call__(self, x, train):
      blk = FoldBlock(name='blk')
      _, a, b = blk(x, train)
      _, c, d = blk(x, train)
      return [np.asarray(k) for k in (a, b, c, d)]

  return Outer()


fresh = make_folded().apply({}, x, True, rngs=rngs)
model = make_folded()
model.apply({}, x, False, rngs=rngs)
later = model.apply({}, x, True, rngs=rngs)
bad2 = False
for i, (f, l) in enumerate(zip(fresh, later)):
  same = np.array_equal(f, l)
  print(f'fold_rngs draw {i}: fresh process {f}   after an eval-mode apply {l}   {"same" if same else "DIFFERENT"}')
  bad2 |= not same
if bad2:
  print('DEFECT: the same history dependence with nn.fold_rngs (plain Python bool argument)')
bad |= bad2
print('DEFECT PRESENT' if bad else 'no defect observed')
sys.exit(1 if bad else 0)
