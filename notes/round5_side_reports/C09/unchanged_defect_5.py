"""Unchanged-tree defect: flax_fix_rng_separator is ignored inside a warm nn.jit.

Inside a lifted jit the static part of every key (module path + count) is
hashed by _fold_in_static while the method is TRACED, so the hash - computed
with the value flax_fix_rng_separator had at trace time - is baked into the
compiled function as a constant.  The flag is not part of the jit cache key
(lift.jit's fingerprint is (mutable, module fingerprint)), so when the flag is
switched on later in the same process (config.update / temp_flip_flag /
a test flipping it), every call that hits the jit cache keeps drawing the
keys of the OLD setting:

  * with the fix enabled the two different paths ('ab', 'c') and ('a', 'bc')
    still get the same key inside the jitted block ("with the RNG-separator
    fix enabled any two different paths give different keys" is violated), and
  * the keys differ from those the identical program + seeds + flag setting
    produces when the cache is cold (not deterministic).

Run: python unchanged_defect_5.py /repo
"""
import sys
sys.path.insert(0, '/verif/seeded'); import compat  # noqa
sys.path.insert(0, sys.argv[1] if len(sys.argv) > 1 else '/repo')
import jax, jax.numpy as jnp, numpy as np
import flax, flax.linen as nn
from flax.configurations import temp_flip_flag

print('flax from', flax.__file__)
kd = jax.random.key_data


class Leaf(nn.Module):
  @nn.compact
  def __call__(self):
    return kd(self.make_rng('dropout'))


class Mid(nn.Module):
  leaf: str

  @nn.compact
  def __call__(self):
    return Leaf(name=self.leaf)()


class Block(nn.Module):
  @nn.compact
  def __call__(self):
    return Mid('c', name='ab')(), Mid('bc', name='a')()   # paths ab/c and a/bc


def make():
  JitBlock = nn.jit(Block)

  class Outer(nn.Module):
    @nn.compact
    def __call__(self):
      return [np.asarray(k) for k in JitBlock(name='blk')()]

  return Outer()


rngs = {'dropout': jax.random.PRNGKey(0)}
bad = False
model = make()
with temp_flip_flag('fix_rng_separator', False):
  k1, k2 = model.apply({}, rngs=rngs)
print('flag off              : ab/c', k1, ' a/bc', k2, '(the documented collision without the fix)')
with temp_flip_flag('fix_rng_separator', True):
  w1, w2 = model.apply({}, rngs=rngs)           # jit cache is warm
  c1, c2 = make().apply({}, rngs=rngs)          # same program, fresh nn.jit => cold cache
print('flag on,  warm nn.jit : ab/c', w1, ' a/bc', w2)
print('flag on,  cold nn.jit : ab/c', c1, ' a/bc', c2)
if np.array_equal(w1, w2):
  print('DEFECT: with the fix ENABLED the different paths ab/c and a/bc still share one key')
  bad = True
if not (np.array_equal(w1, c1) and np.array_equal(w2, c2)):
  print('DEFECT: same program, seeds and flag setting, but the keys depend on whether nn.jit was traced before the flag was set')
  bad = True
print('DEFECT PRESENT' if bad else 'no defect observed')
sys.exit(1 if bad else 0)
