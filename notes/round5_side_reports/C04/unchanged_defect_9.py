import sys
root = sys.argv[1] if len(sys.argv) > 1 else "/repo"
sys.path.insert(0, '/verif/seeded'); import compat
sys.path.insert(0, root)
import flax
from flax import nnx
import jax, jax.numpy as jnp, numpy as np
print("flax from", flax.__file__)
"""nnx.while_loop silently discards Variable updates made inside cond_fun (cond_fun gets
an anonymous copy: extract.from_tree(pure_val) without a context), whereas the unrolled
Python loop `while cond(val): val = body(val)` keeps them."""
class C(nnx.Module):
  def __init__(self):
    self.n = nnx.Variable(jnp.array(0)); self.checks = nnx.Variable(jnp.array(0))
def cond_fun(c):
  c.checks.value = c.checks.value + 1     # count how often the condition was evaluated
  return c.n.value < 3
def body_fun(c):
  c.n.value = c.n.value + 1
  return c
c = C()
while cond_fun(c): c = body_fun(c)
print('python loop   : n =', int(c.n.value), 'checks =', int(c.checks.value))
c2 = C(); nnx.while_loop(cond_fun, body_fun, c2)
print('nnx.while_loop: n =', int(c2.n.value), 'checks =', int(c2.checks.value))
if int(c2.checks.value) != int(c.checks.value):
  print('DEFECT: updates made in cond_fun were dropped without any error')
