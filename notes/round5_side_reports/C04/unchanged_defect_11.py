import sys
root = sys.argv[1] if len(sys.argv) > 1 else "/repo"
sys.path.insert(0, '/verif/seeded'); import compat
sys.path.insert(0, root)
import flax
from flax import nnx
import jax, jax.numpy as jnp, numpy as np
print("flax from", flax.__file__)
"""nnx.cached_partial works on a private clone of the object: (1) static edits the caller
makes afterwards (model.eval()) are silently ignored, (2) a static edit made inside the
function raises ValueError instead of reaching the caller, (3) the object returned is the
clone, not the caller's object. The property statement lists cached_partial among the
transforms for which added/removed/re-bound attributes end up identical on the caller's
own objects; that does not hold (documented design, but silent in case 1)."""
model = nnx.Dropout(0.5, rngs=nnx.Rngs(0))
@nnx.jit
def apply(m, x): return m(x)
cached = nnx.cached_partial(apply, model)
model.eval()                       # switch the caller's model to deterministic mode
x = jnp.ones(1000)
d = int((apply(model, x) == 0).sum()); c = int((cached(x) == 0).sum())
print('after model.eval(): zeros via nnx.jit =', d, '| zeros via cached_partial =', c)
if c != d: print('DEFECT (1): cached function still runs in training mode')

class M(nnx.Module):
  def __init__(self): self.v = nnx.Variable(jnp.array(1.0)); self.calls = 0
@nnx.jit
def count(m):
  m.calls += 1
  return m
m = M(); count(m); print('nnx.jit: m.calls =', m.calls)
m = M()
try:
  r = nnx.cached_partial(count, m)(); print('cached: m.calls =', m.calls)
except ValueError as e:
  print('DEFECT (2): cached_partial raised ValueError for a static edit:', str(e)[:70].replace('\n', ' '))
@nnx.jit
def ident(m): return m
m = M(); r = nnx.cached_partial(ident, m)()
print('returned object is caller\'s object:', r is m, '(nnx.jit:', ident(m) is m, ')')
if r is not m: print('DEFECT (3): a copy is returned')
