import sys
root = sys.argv[1] if len(sys.argv) > 1 else "/repo"
sys.path.insert(0, '/verif/seeded'); import compat
sys.path.insert(0, root)
import flax
from flax import nnx
import jax, jax.numpy as jnp, numpy as np
print("flax from", flax.__file__)
"""History dependence: a cached_partial call that fails before any nnx transform consumes
GRAPH_CONTEXT.tmp_static_cache (graph.static_cache() raises in its `finally` but never
resets the slot) poisons the NEXT, unrelated nnx.jit call in the thread: it picks up the
stale static cache, so e.g. a bare-Variable argument hits `assert isinstance(graphdef,
NodeDef)` and the call fails without applying its update. The call after that is fine."""
class M(nnx.Module):
  def __init__(self): self.v = nnx.Variable(jnp.array(1.0))

def plain(m, x):     # not an nnx transform -> nobody consumes the static cache
  return x
try:
  nnx.cached_partial(plain, M())(1.0)
except Exception as e:
  print('first (failing) call :', type(e).__name__, str(e)[:70])

v = nnx.Variable(jnp.array(1.0))
def g(v): v.value = v.value + 1
for i in range(2):
  try:
    nnx.jit(g)(v); print(f'later nnx.jit call #{i}: ok, v={float(v.value)}')
  except Exception as e:
    print(f'later nnx.jit call #{i}: {type(e).__name__} {e!s:.60} v={float(v.value)}')
    print('DEFECT: an unrelated nnx.jit call failed only because an earlier cached_partial call had failed')
