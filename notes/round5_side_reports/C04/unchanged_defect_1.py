import sys
root = sys.argv[1] if len(sys.argv) > 1 else "/repo"
sys.path.insert(0, '/verif/seeded'); import compat
sys.path.insert(0, root)
import flax
from flax import nnx
import jax, jax.numpy as jnp, numpy as np
print("flax from", flax.__file__)
"""nnx.jit silently drops Variable-metadata edits made inside the function.
Eager, nnx.remat, nnx.cond and nnx.jit(in_shardings=StateSharding) keep them.
Cause: graph._graph_unflatten.make_variable writes back only `raw_value` when the
leaf is a raw array (nnx.jit fast path) but value+metadata when it is a VariableState."""
from jax.sharding import Mesh, NamedSharding, PartitionSpec as PS

class M(nnx.Module):
  def __init__(self):
    self.v = nnx.Variable(jnp.array(1.0), tag='old')

def f(m):
  m.v.tag = 'new'        # edit metadata
  m.v.extra = 3          # add metadata
  m.v.value = m.v.value + 1

mesh = Mesh(np.array(jax.devices()[:1]), ('d',))
rep = NamedSharding(mesh, PS())
runs = {
  'eager': lambda m: f(m),
  'nnx.jit': lambda m: nnx.jit(f)(m),
  'nnx.jit + StateSharding': lambda m: nnx.jit(f, in_shardings=(nnx.StateSharding({...: rep}),))(m),
  'nnx.remat': lambda m: nnx.remat(f)(m),
  'nnx.cond': lambda m: nnx.cond(True, f, f, m),
}
res = {}
for name, run in runs.items():
  m = M(); run(m)
  res[name] = (float(m.v.value), dict(m.v.get_metadata()))
  print(f'{name:26s} value={res[name][0]} metadata={res[name][1]}')
if res['nnx.jit'] != res['eager']:
  print('DEFECT: nnx.jit lost the metadata edits (value was propagated, metadata was not)')
