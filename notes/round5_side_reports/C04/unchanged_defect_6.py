import sys
root = sys.argv[1] if len(sys.argv) > 1 else "/repo"
sys.path.insert(0, '/verif/seeded'); import compat
sys.path.insert(0, root)
import flax
from flax import nnx
import jax, jax.numpy as jnp, numpy as np
print("flax from", flax.__file__)
"""With nnx.cached_partial active, a caller object that the function detaches and returns
inside a NEWLY created node comes back as a COPY (MergeContext.unflatten, static_cache
branch, `graphdef.outer_index is None` case calls unflatten() without
outer_index_outer_ref). Plain nnx.jit returns the caller's own object."""
class M(nnx.Module):
  def __init__(self, k): self.v = nnx.Variable(jnp.array(float(k)))
class Holder(nnx.Module):
  def __init__(self, c): self.c = c
class P(nnx.Module):
  def __init__(self): self.child = M(3)

def f(model, other):
  c = other.child
  del other.child
  c.v.value = c.v.value + 1
  return Holder(c)

for name, mk in [('eager', lambda m: (lambda o: f(m, o))),
                 ('nnx.jit', lambda m: (lambda o: nnx.jit(f)(m, o))),
                 ('cached_partial(nnx.jit)', lambda m: nnx.cached_partial(nnx.jit(f), m))]:
  m = M(0); other = P(); child = other.child
  h = mk(m)(other)
  print(f'{name:24s}: h.c is caller\'s child: {h.c is child}; caller child.v={float(child.v.value)} h.c.v={float(h.c.v.value)}')
  if h.c is not child:
    print(f'DEFECT: {name}: returned a copy; the caller\'s own object did not receive the update')
