import sys
root = sys.argv[1] if len(sys.argv) > 1 else "/repo"
sys.path.insert(0, '/verif/seeded'); import compat
sys.path.insert(0, root)
import flax
from flax import nnx
import jax, jax.numpy as jnp, numpy as np
print("flax from", flax.__file__)
"""Aliasing of list/dict/tuple containers is not preserved: a list shared by two attributes
(or still held by the caller) is duplicated by every transform. In-place edits made by the
function reach only one of the copies, and the caller's own list object is replaced."""
class P(nnx.Module):
  def __init__(self):
    shared = [nnx.Variable(jnp.array(1.0))]
    self.x = shared; self.y = shared          # two attributes alias ONE list
def g(p):
  p.x.append(nnx.Variable(jnp.array(2.0)))    # visible through p.y as well when run eagerly
  return len(p.y)
for name, tr in [('eager', lambda f: f), ('nnx.jit', nnx.jit), ('nnx.remat', nnx.remat)]:
  p = P(); held = p.x
  out = tr(g)(p)
  print(f'{name:9s}: returned len(p.y)={int(out)} len(x)={len(p.x)} len(y)={len(p.y)} x is y: {p.x is p.y} caller-held list is p.x: {held is p.x} (len {len(held)})')
  if name != 'eager' and (len(p.y) != 2 or p.x is not p.y or held is not p.x):
    print(f'DEFECT: {name}: container aliasing lost / caller\'s list replaced / return value differs from eager (2)')
