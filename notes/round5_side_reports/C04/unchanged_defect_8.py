import sys
root = sys.argv[1] if len(sys.argv) > 1 else "/repo"
sys.path.insert(0, '/verif/seeded'); import compat
sys.path.insert(0, root)
import flax
from flax import nnx
import jax, jax.numpy as jnp, numpy as np
print("flax from", flax.__file__)
"""nnx.cached_partial rejects several legal inputs that the underlying nnx.jit accepts:
 (a) the same object twice (aliasing across arguments)      -> KeyError at call time
 (b) a bare Variable (create_static_cache explicitly allows) -> RuntimeError at creation
 (c) a module with a raw jax.Array attribute                -> AttributeError at call time
 (d) cached node not the first graph node seen by the transform (plain python wrapper
     re-ordering the arguments)                              -> RuntimeError index already used"""
class M(nnx.Module):
  def __init__(self): self.v = nnx.Variable(jnp.array(1.0))
class A(nnx.Module):
  def __init__(self): self.v = nnx.Variable(jnp.array(1.0)); self.mask = jnp.ones(2)

@nnx.jit
def f2(m1, m2, x):
  m1.v.value = m1.v.value + x
  return m1.v.value
@nnx.jit
def f1(m, x):
  m.v.value = m.v.value + x
  return m.v.value
@nnx.jit
def fv(v, x):
  v.value = v.value + x

def attempt(label, thunk):
  try:
    print(label, 'ok ->', thunk())
  except Exception as e:
    print(label, 'DEFECT:', type(e).__name__, str(e)[:90])

m = M(); print('plain nnx.jit, same object twice ->', f2(m, m, 1.0))
m = M(); attempt('(a) cached_partial(f, m, m)      ', lambda: nnx.cached_partial(f2, m, m)(1.0))
v = nnx.Variable(jnp.array(1.0)); fv(v, 1.0)
attempt('(b) cached_partial(f, variable)  ', lambda: nnx.cached_partial(fv, v)(1.0))
a = A(); print('plain nnx.jit, array attribute ->', f1(a, 1.0))
attempt('(c) module with jax.Array attr   ', lambda: nnx.cached_partial(f1, a)(1.0))
other, m = M(), M()
wrapper = lambda m, other, x: f2(other, m, x)      # cached node is passed second
attempt('(d) cached node passed second    ', lambda: nnx.cached_partial(wrapper, m)(other, 1.0))
