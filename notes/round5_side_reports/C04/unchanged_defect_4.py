import sys
root = sys.argv[1] if len(sys.argv) > 1 else "/repo"
sys.path.insert(0, '/verif/seeded'); import compat
sys.path.insert(0, root)
import flax
from flax import nnx
import jax, jax.numpy as jnp, numpy as np
print("flax from", flax.__file__)
"""Variable updates on an object that the function detaches from the passed-in graph are
lost under nnx.jit / nnx.remat (only what is still reachable from the arguments / the
return value is written back). The caller who still holds the detached object sees the
update after an eager call but not after a transformed call. Same for a Variable that is
updated and then re-bound (replaced by a new Variable)."""
class M(nnx.Module):
  def __init__(self, k): self.v = nnx.Variable(jnp.array(float(k)))
class P(nnx.Module):
  def __init__(self): self.a = M(1); self.b = M(2)

def f(p):
  b = p.b
  b.v.value = b.v.value + 10      # update ...
  del p.b                         # ... then detach the sub-object
  old = p.a.v
  old.value = old.value + 10      # update ...
  p.a.v = nnx.Variable(jnp.array(0.0))   # ... then re-bind the attribute

for name, tr in [('eager', lambda f: f), ('nnx.jit', nnx.jit), ('nnx.remat', nnx.remat)]:
  p = P(); b = p.b; old = p.a.v
  tr(f)(p)
  print(f'{name:9s}: detached b.v={float(b.v.value)}  replaced Variable={float(old.value)}')
  if name != 'eager' and (float(b.v.value) != 12.0 or float(old.value) != 11.0):
    print(f'DEFECT: {name}: updates to the detached object / replaced Variable were dropped (eager: 12.0 / 11.0)')
