import sys
root = sys.argv[1] if len(sys.argv) > 1 else "/repo"
sys.path.insert(0, '/verif/seeded'); import compat
sys.path.insert(0, root)
import flax
from flax import nnx
import jax, jax.numpy as jnp, numpy as np
print("flax from", flax.__file__)
"""A dict-valued attribute loses its insertion order under every transform: the copy the
function sees iterates in sorted-key order (graph.py registers dict with
flatten=sorted(x.items())), so order-sensitive code returns a different value than eager,
and the caller's own dict is replaced by a key-sorted one after the call."""
class L(nnx.Module):
  def __init__(self):
    self.layers = {'scale': nnx.Variable(jnp.array(2.0)), 'add': nnx.Variable(jnp.array(1.0))}

def g(m, x):
  for k, p in m.layers.items():      # apply the "layers" in the order they were registered
    x = x * p.value if k == 'scale' else x + p.value
  return x

x = jnp.array(3.0)
m = L(); e = g(m, x); print('eager     ->', e, list(m.layers))
out = {}
for name, tr in [('nnx.jit', nnx.jit), ('nnx.remat', nnx.remat), ('nnx.cond', lambda f: (lambda m, x: nnx.cond(True, f, f, m, x)))]:
  m = L(); y = tr(g)(m, x); out[name] = y
  print(f'{name:9s} ->', y, list(m.layers))
  if float(y) != float(e) or list(m.layers) != ['scale', 'add']:
    print(f'DEFECT: {name}: result {float(y)} != eager {float(e)} and/or caller dict order changed to {list(m.layers)}')
