import sys
root = sys.argv[1] if len(sys.argv) > 1 else "/repo"
sys.path.insert(0, '/verif/seeded'); import compat
sys.path.insert(0, root)
import flax
from flax import nnx
import jax, jax.numpy as jnp, numpy as np
print("flax from", flax.__file__)
"""Trace-cache hit re-binds a static attribute to an equal-but-different object taken
from an EARLIER call's trace: Static(1) == Static(True) == Static(1.0) hash/compare equal,
so the second object hits the jit cache of the first and, at write-back, gets the first
object's attribute value (True -> 1, 1.0 -> 1). Eager leaves the attribute alone."""
class P(nnx.Module):
  def __init__(self, flag): self.v = nnx.Variable(jnp.array(1.0)); self.flag = flag

@nnx.jit
def f(p):
  p.v.value = p.v.value + 1

f(P(1))                      # warm the cache with flag == 1 (int)
for flag in (True, 1.0):
  p = P(flag); f(p)
  print(f'flag before={flag!r}  after nnx.jit={p.flag!r} ({type(p.flag).__name__})')
  if type(p.flag) is not type(flag):
    print('DEFECT: attribute was re-bound to the value of a previous call (type changed)')
p = P(True); nnx.jit(lambda p: None)(p); print('fresh jit function, no warm cache:', repr(p.flag))

# Same mechanism with a MUTABLE static attribute: after a cache hit the second caller's
# attribute IS the first caller's object -> two unrelated modules now alias each other.
class S(nnx.Module):
  def __init__(self, tags): self.tags = tags; self.v = nnx.Variable(jnp.array(1.0))
@nnx.jit
def g(s): s.v.value = s.v.value + len(s.tags)
s1 = S({'a'}); g(s1)
s2 = S({'a'}); mine = s2.tags; g(s2)
print('s2.tags is its own set:', s2.tags is mine, '| s2.tags is s1.tags:', s2.tags is s1.tags)
if s2.tags is s1.tags:
  s1.tags.add('zzz'); print('DEFECT: unrelated modules alias each other after a cache hit; s2.tags =', s2.tags)
