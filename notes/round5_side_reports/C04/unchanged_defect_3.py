import sys
root = sys.argv[1] if len(sys.argv) > 1 else "/repo"
sys.path.insert(0, '/verif/seeded'); import compat
sys.path.insert(0, root)
import flax
from flax import nnx
import jax, jax.numpy as jnp, numpy as np
print("flax from", flax.__file__)
"""A Module that lives at an outer trace level (created at top level, used inside a
jax.jit-traced function) handed to an nnx transform:
 * eager f(m)  : raises TraceContextError, m untouched.
 * nnx.jit     : raises TraceContextError too, but only in the middle of the final
                 write-back, AFTER the caller's module was cleared -> m is left with NO
                 attributes at all (vars(m) == {}).
 * nnx.remat / nnx.cond: no error at all; tracers of the outer jax.jit are silently
                 stored in the top-level module's Variable (update_from_state bypasses
                 the trace-level check), i.e. a leaked tracer instead of the eager error."""
class M(nnx.Module):
  def __init__(self):
    self.v = nnx.Variable(jnp.array(1.0)); self.name = 'm'

def f(m, x):
  m.v.value = m.v.value + x

for tname, tr in [('eager', lambda f: f), ('nnx.jit', nnx.jit), ('nnx.remat', nnx.remat),
                  ('nnx.cond', lambda f: (lambda m, x: nnx.cond(True, f, f, m, x)))]:
  m = M()
  @jax.jit
  def outer(x):
    tr(f)(m, x)
    return x
  try:
    outer(1.0); err = 'no error'
  except Exception as e:
    err = type(e).__name__
  attrs = sorted(k for k in vars(m) if k != '_object__state')
  val = vars(m)['v'].raw_value if 'v' in vars(m) else None
  print(f'{tname:9s}: {err:18s} attributes afterwards={attrs} v.raw_value={val!r}')
  if tname != 'eager':
    if not attrs:
      print(f'DEFECT: {tname}: the caller\'s module was wiped (all attributes removed) by the failed call')
    elif isinstance(val, jax.core.Tracer):
      print(f'DEFECT: {tname}: no error, a tracer leaked into the top-level module')
