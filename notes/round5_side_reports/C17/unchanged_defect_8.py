"""UNCHANGED TREE: Average/Accuracy keep `total` in float32, so once 2**24 has been reached small increments
are rounded away. All predictions below are correct, yet the reported accuracy depends on how the
stream was split: one big batch gives 1.0, the same stream with the tail fed one example at a time
gives < 1.0 (total is stuck at 16777216 while count keeps growing)."""
import sys
sys.path.insert(0, '/verif/seeded'); import compat
sys.path.insert(0, sys.argv[1] if len(sys.argv) > 1 else "/repo")
import flax, jax, jax.numpy as jnp, numpy as np, optax
from flax import nnx
from flax.training import train_state
print("flax from", flax.__file__)

N, tail = 2**24, 64
one = nnx.metrics.Average(); one.update(values=jnp.ones((N + tail,), jnp.float32))
split = nnx.metrics.Average(); split.update(values=jnp.ones((N,), jnp.float32))
for _ in range(tail): split.update(values=1.0)
print('mean of %d ones, one batch          :' % (N + tail), one.compute(), one.total.value, one.count.value)
print('mean of %d ones, big batch + scalars:' % (N + tail), split.compute(), split.total.value, split.count.value)
bad = float(one.compute()) != float(split.compute())
print('DEFECT PRESENT: Average depends on the batch split once total >= 2**24' if bad else 'no defect')
