"""UNCHANGED TREE: nnx.metrics.Welford.reset() re-creates `count` as uint32 although __init__ makes it
int32 (Average.reset keeps int32). So reset() changes the type of the metric state: a reset inside
nnx.cond (reset at epoch boundaries in a jitted loop) raises, where the same code with Average works,
and every jitted update function is re-traced after the first reset."""
import sys
sys.path.insert(0, '/verif/seeded'); import compat
sys.path.insert(0, sys.argv[1] if len(sys.argv) > 1 else "/repo")
import flax, jax, jax.numpy as jnp, numpy as np, optax
from flax import nnx
from flax.training import train_state
print("flax from", flax.__file__)

w = nnx.metrics.Welford(); d0 = w.count.value.dtype
w.update(values=jnp.array([1., 2.])); w.reset(); d1 = w.count.value.dtype
print('count dtype after __init__:', d0, ' after reset():', d1)
bad = d0 != d1
def run(metric):
  @nnx.jit
  def step(m, new_epoch, v):
    nnx.cond(new_epoch, lambda m: m.reset(), lambda m: None, m)
    m.update(values=v)
  step(metric, True, jnp.array([3., 4.]))
  return metric.compute()
print('Average, reset inside nnx.cond:', run(nnx.metrics.Average()))
try:
  print('Welford, reset inside nnx.cond:', run(nnx.metrics.Welford()))
except TypeError as e:
  bad = True; print('DEFECT Welford, reset inside nnx.cond raises:', str(e).splitlines()[0])
print('DEFECT PRESENT' if bad else 'no defect')
