"""UNCHANGED TREE: linen TrainState rejects a parameter tree that is a bare array.
A single jax array is a legal pytree for every optax transformation, but TrainState.create and
TrainState.apply_gradients evaluate `OVERWRITE_WITH_GRADIENT in params/grads`, which for a jax
array is Array.__contains__(str) -> TypeError. (A list/tuple of arrays happens to work.)"""
import sys
sys.path.insert(0, '/verif/seeded'); import compat
sys.path.insert(0, sys.argv[1] if len(sys.argv) > 1 else "/repo")
import flax, jax, jax.numpy as jnp, numpy as np, optax
from flax import nnx
from flax.training import train_state
print("flax from", flax.__file__)

tx = optax.adam(0.1)
params = jnp.ones(3)
grads = jnp.full((3,), 0.5)
u, o = tx.update(grads, tx.init(params), params)
print('optax by hand works:', optax.apply_updates(params, u))
bad = False
try:
  train_state.TrainState.create(apply_fn=None, params=params, tx=tx)
except TypeError as e:
  bad = True; print('DEFECT create():', type(e).__name__, e)
s = train_state.TrainState(step=0, apply_fn=None, params=params, tx=tx, opt_state=tx.init(params))
try:
  s.apply_gradients(grads=grads)
except TypeError as e:
  bad = True; print('DEFECT apply_gradients():', type(e).__name__, e)
print('DEFECT PRESENT' if bad else 'no defect')
