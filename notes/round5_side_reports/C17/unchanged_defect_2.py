"""UNCHANGED TREE: the _overwrite_with_gradient (fp8) branch of linen TrainState.apply_gradients does
not leave "everything else unchanged": it rebuilds `params` as a plain 2-key dict, so (a) a FrozenDict
parameter tree silently becomes a dict (new pytree type: lax.scan carry / jit retrace / serialization
target mismatch) and (b) any other top-level entry of `params` is silently dropped."""
import sys
sys.path.insert(0, '/verif/seeded'); import compat
sys.path.insert(0, sys.argv[1] if len(sys.argv) > 1 else "/repo")
import flax, jax, jax.numpy as jnp, numpy as np, optax
from flax import nnx
from flax.training import train_state
print("flax from", flax.__file__)

OWG = '_overwrite_with_gradient'
tx = optax.sgd(0.1)
bad = False
# (a) container type changes
params = flax.core.freeze({'params': {'w': jnp.ones(3)}, OWG: {'scale': jnp.ones(())}})
s = train_state.TrainState.create(apply_fn=None, params=params, tx=tx)
g = jax.tree_util.tree_map(jnp.ones_like, params)
s2 = s.apply_gradients(grads=g)
print('params type before/after:', type(s.params).__name__, '->', type(s2.params).__name__)
if jax.tree_util.tree_structure(s.params) != jax.tree_util.tree_structure(s2.params):
  bad = True; print('DEFECT: pytree structure of params changed by apply_gradients')
try:
  jax.lax.scan(lambda st, _: (st.apply_gradients(grads=g), None), s, None, length=2)
except Exception as e:
  bad = True; print('DEFECT: apply_gradients cannot be a lax.scan body:', type(e).__name__, str(e)[:120])
# (b) other collections dropped
params = {'params': {'w': jnp.ones(3)}, OWG: {'scale': jnp.ones(())}, 'frozen_embeddings': {'e': jnp.ones(2)}}
s = train_state.TrainState.create(apply_fn=None, params=params, tx=tx)
g = {'params': {'w': jnp.ones(3)}, OWG: {'scale': jnp.ones(())}}
s2 = s.apply_gradients(grads=g)
print('keys before:', sorted(s.params), 'after:', sorted(s2.params))
if sorted(s.params) != sorted(s2.params):
  bad = True; print('DEFECT: top-level entries of params were dropped')
print('DEFECT PRESENT' if bad else 'no defect')
