"""UNCHANGED TREE: nnx.metrics.Accuracy forwards *args/**kwargs to Average.__init__, i.e. it accepts the
documented `argname` option, but Accuracy.update always calls Average.update(values=...), so any
Accuracy constructed with a non-default argname can never be updated (TypeError on every update)."""
import sys
sys.path.insert(0, '/verif/seeded'); import compat
sys.path.insert(0, sys.argv[1] if len(sys.argv) > 1 else "/repo")
import flax, jax, jax.numpy as jnp, numpy as np, optax
from flax import nnx
from flax.training import train_state
print("flax from", flax.__file__)

acc = nnx.metrics.Accuracy(argname='correct')
try:
  acc.update(logits=jnp.array([[0., 1.], [1., 0.]]), labels=jnp.array([1, 1]))
  print('accuracy', acc.compute()); print('no defect')
except TypeError as e:
  print('DEFECT PRESENT: Accuracy(argname="correct").update(...) raises TypeError:', e)
