"""UNCHANGED TREE: nnx.metrics.Welford is poisoned by an empty batch. A partition of a value stream may
contain an empty piece (last shard of an uneven split, a fully masked batch); Average copes with it,
Welford computes values.mean() of an empty array (NaN) and keeps mean/std NaN for ever after."""
import sys
sys.path.insert(0, '/verif/seeded'); import compat
sys.path.insert(0, sys.argv[1] if len(sys.argv) > 1 else "/repo")
import flax, jax, jax.numpy as jnp, numpy as np, optax
from flax import nnx
from flax.training import train_state
print("flax from", flax.__file__)

vals = jnp.array([1., 2., 3., 4.])
w1 = nnx.metrics.Welford(); w1.update(values=vals)
w2 = nnx.metrics.Welford(); w2.update(values=vals[:3]); w2.update(values=vals[3:3]); w2.update(values=vals[3:])
a2 = nnx.metrics.Average(); a2.update(values=vals[:3]); a2.update(values=vals[3:3]); a2.update(values=vals[3:])
print('one batch        :', w1.compute())
print('3 + empty + 1    :', w2.compute())
print('Average, same split:', a2.compute())
bad = bool(jnp.isnan(w2.compute().mean))
print('DEFECT PRESENT: statistic depends on the split (NaN)' if bad else 'no defect')
