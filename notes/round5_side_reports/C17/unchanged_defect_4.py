"""UNCHANGED TREE: nnx.metrics.Average reduces each batch with values.sum() in the dtype of the batch
before adding to the float32 total, so the result depends on how the stream is cut into batches:
int32 values wrap around, float16 values overflow to inf, although every single value and the true
mean are perfectly representable."""
import sys
sys.path.insert(0, '/verif/seeded'); import compat
sys.path.insert(0, sys.argv[1] if len(sys.argv) > 1 else "/repo")
import flax, jax, jax.numpy as jnp, numpy as np, optax
from flax import nnx
from flax.training import train_state
print("flax from", flax.__file__)

bad = False
v = jnp.full((4,), 2**30, jnp.int32)
a = nnx.metrics.Average(); a.update(values=v)
b = nnx.metrics.Average(); [b.update(values=v[i:i+1]) for i in range(4)]
print('int32 one batch:', a.compute(), ' four batches:', b.compute(), ' true mean:', float(2**30))
bad |= float(a.compute()) != float(b.compute())
v = jnp.full((128,), 600., jnp.float16)
a = nnx.metrics.Average(); a.update(values=v)
b = nnx.metrics.Average(); [b.update(values=v[i:i+32]) for i in range(0, 128, 32)]
print('float16 one batch:', a.compute(), ' four batches:', b.compute(), ' true mean: 600')
bad |= float(a.compute()) != float(b.compute())
print('DEFECT PRESENT: Average depends on the batch split' if bad else 'no defect')
