"""UNCHANGED TREE: nnx.MultiMetric.update is not atomic. It updates the children one after the other; when a
later child rejects the batch (here Accuracy raises ValueError for uint8 labels) the earlier children
have already accumulated it. After the caller fixes the labels and re-submits the same batch the loss
has been counted twice and the children disagree about how many values were seen."""
import sys
sys.path.insert(0, '/verif/seeded'); import compat
sys.path.insert(0, sys.argv[1] if len(sys.argv) > 1 else "/repo")
import flax, jax, jax.numpy as jnp, numpy as np, optax
from flax import nnx
from flax.training import train_state
print("flax from", flax.__file__)

m = nnx.MultiMetric(loss=nnx.metrics.Average('loss'), accuracy=nnx.metrics.Accuracy())
loss = jnp.array([1., 3.]); logits = jnp.array([[0., 1.], [1., 0.]])
try:
  m.update(loss=loss, logits=logits, labels=jnp.array([1, 1], jnp.uint8))
except ValueError as e:
  print('first attempt raised:', e)
print('counts after the failed call: loss', int(m.loss.count.value), ' accuracy', int(m.accuracy.count.value))
m.update(loss=loss, logits=logits, labels=jnp.array([1, 1], jnp.int32))
print('counts after the retry      : loss', int(m.loss.count.value), ' accuracy', int(m.accuracy.count.value))
bad = int(m.loss.count.value) != int(m.accuracy.count.value)
print('DEFECT PRESENT: failed update left MultiMetric half-updated' if bad else 'no defect')
