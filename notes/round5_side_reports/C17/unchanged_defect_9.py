"""UNCHANGED TREE: "every optax transformation" does not hold for the two functional train states.
linen TrainState.apply_gradients and nnx.TrainState.apply_gradients call tx.update(grads, opt_state,
params) and offer no way to hand over the extra keyword arguments that optax
GradientTransformationExtraArgs need (their **kwargs are dataclass fields for .replace()). Stock optax
optimizers such as optax.lbfgs() (default zoom line search), optax.polyak_sgd() or anything chained
with optax.contrib.reduce_on_plateau() therefore raise TypeError, while nnx.Optimizer.update(grads,
**kwargs) applies exactly the same transformations fine."""
import sys
sys.path.insert(0, '/verif/seeded'); import compat
sys.path.insert(0, sys.argv[1] if len(sys.argv) > 1 else "/repo")
import flax, jax, jax.numpy as jnp, optax
from flax import nnx
from flax.training import train_state
print("flax from", flax.__file__)
bad = False
tx = optax.chain(optax.adam(0.1), optax.contrib.reduce_on_plateau())
params = {'w': jnp.ones(3)}; grads = {'w': jnp.ones(3)}
u, _ = tx.update(grads, tx.init(params), params, value=jnp.float32(3.0))
print('optax by hand            :', optax.apply_updates(params, u)['w'])
m = nnx.Dict(w=nnx.Param(jnp.ones(3))); opt = nnx.Optimizer(m, tx)
opt.update(jax.tree_util.tree_map(jnp.ones_like, nnx.state(m, nnx.Param)), value=jnp.float32(3.0))
print('nnx.Optimizer.update     :', m.w.value)
try:
  s = train_state.TrainState.create(apply_fn=None, params=params, tx=tx)
  print('linen TrainState         :', s.apply_gradients(grads=grads, value=jnp.float32(3.0)).params)
except TypeError as e:
  bad = True; print('DEFECT linen TrainState.apply_gradients:', e)
try:
  gd, p = nnx.split(nnx.Dict(w=nnx.Param(jnp.ones(3))), nnx.Param)
  s = nnx.TrainState.create(gd, params=p, tx=tx)
  print('nnx.TrainState           :', s.apply_gradients(jax.tree_util.tree_map(jnp.ones_like, p), value=jnp.float32(3.0)).params)
except TypeError as e:
  bad = True; print('DEFECT nnx.TrainState.apply_gradients:', e)
print('DEFECT PRESENT' if bad else 'no defect')
