"""UNCHANGED-TREE DEFECT 4 (property C01: observation features never change the primary output).

Module.sow reserves the variable name in the scope ONLY when the target
collection is mutable (it returns early otherwise).  A module that sows under a
name that is also the name of one of its sub-modules therefore works when the
observation is switched off and raises "Duplicate use of scope name" as soon as
the caller makes the collection mutable: turning the observation on changes the
primary result from a value to an exception.  (Module.perturb has the same
asymmetry.)

usage: unchanged_defect_4.py <flax root>
"""
import sys
root = sys.argv[1] if len(sys.argv) > 1 else '/repo'
sys.path.insert(0, '/verif/seeded'); import compat  # noqa
sys.path.insert(0, root)
import jax, jax.numpy as jnp, numpy as np
import flax, flax.linen as nn
print('flax from', flax.__file__)
bad = []

class S(nn.Module):
  @nn.compact
  def __call__(self, x):
    h = nn.Dense(2, name='dense')(x)
    self.sow('intermediates', 'dense', h)      # same name as the sub-module, different kind
    return h

x = jnp.ones((1, 2))
v = S().init(jax.random.key(0), x)             # works (intermediates is not mutable in init)
y0 = S().apply(v, x)                           # works
try:
  y1, _ = S().apply(v, x, mutable='intermediates')
  if not np.array_equal(y0, y1): bad.append('output differs')
except Exception as e:
  bad.append(f'apply works with sow inactive but raises with mutable="intermediates": {type(e).__name__}: {e}')

class P(nn.Module):
  @nn.compact
  def __call__(self, x):
    h = nn.Dense(2, name='dense')(x)
    return self.perturb('dense', h)
v = {'params': {'dense': nn.Dense(2).init(jax.random.key(0), x)['params']}}   # (P().init itself raises: init makes perturbations mutable)
y0 = P().apply(v, x)
try:
  y1, _ = P().apply(v, x, mutable='perturbations')
except Exception as e:
  bad.append(f'perturb: works without the collection, raises with mutable="perturbations": {type(e).__name__}: {e}')

if bad:
  print('DEFECT PRESENT')
  for b in bad: print(' -', b)
  sys.exit(1)
print('no defect observed')
