"""UNCHANGED-TREE DEFECT 2 (property C01: the new values of the mutable collections are returned).

Scope.put_variable MERGES a dict value into the dict that is already stored
instead of replacing it (the reference-sharing work-around for issue 2022 is
applied to every dict-valued variable, not only to child-scope sub-trees).
Assigning a dict-valued variable a new dict with FEWER keys keeps the dropped
keys: the value read back is not the value written, and the collection returned
by apply contains entries that the module removed.  Also happens through sow
with a keep-the-latest reduce_fn.

usage: unchanged_defect_2.py <flax root>
"""
import sys
root = sys.argv[1] if len(sys.argv) > 1 else '/repo'
sys.path.insert(0, '/verif/seeded'); import compat  # noqa
sys.path.insert(0, root)
import jax, jax.numpy as jnp, numpy as np
import flax, flax.linen as nn
from flax import core
print('flax from', flax.__file__)
bad = []

class M(nn.Module):
  @nn.compact
  def __call__(self, x):
    v = self.variable('cache', 'kv', lambda: {'k': jnp.zeros(2), 'v': jnp.ones(2)})
    v.value = {'k': x}                      # the new value has no 'v' entry
    return v.value

x = jnp.full(2, 5.)
readback, state = M().apply({'cache': {'kv': {'k': jnp.zeros(2), 'v': jnp.ones(2)}}}, x, mutable='cache')
if set(readback) != {'k'}:
  bad.append(f'linen: wrote {{"k": ...}}, read back keys {sorted(readback)}')
if set(state['cache']['kv']) != {'k'}:
  bad.append(f'linen: returned collection has keys {sorted(state["cache"]["kv"])} for a variable whose last written value has keys ["k"]')

def f(scope, x):
  scope.put_variable('state', 'd', {'a': x, 'b': x})
  scope.put_variable('state', 'd', {'a': x + 1})
  return scope.get_variable('state', 'd')
y, st = core.apply(f, mutable='state')({}, 1.0)
if set(y) != {'a'}:
  bad.append(f'core: put {{a,b}} then put {{a}}: get_variable returns keys {sorted(y)}')

class S(nn.Module):
  @nn.compact
  def __call__(self, x):
    keep_latest = lambda old, new: new
    self.sow('diag', 'last', {'first_only': x}, reduce_fn=keep_latest, init_fn=lambda: None)
    self.sow('diag', 'last', {'second_only': x}, reduce_fn=keep_latest, init_fn=lambda: None)
    return x
_, st = S().apply({}, 1.0, mutable='diag')
if set(st['diag']['last']) != {'second_only'}:
  bad.append(f'sow keep-the-latest: returned value has keys {sorted(st["diag"]["last"])}, expected ["second_only"]')

if bad:
  print('DEFECT PRESENT')
  for b in bad: print(' -', b)
  sys.exit(1)
print('no defect observed')
