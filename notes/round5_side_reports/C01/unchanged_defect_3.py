"""UNCHANGED-TREE DEFECT 3 (property C01: writes are returned, not made in place / values read earlier stay what they were).

Module.get_variable / Scope.get_variable (and Variable.value with unbox=False)
return the scope's OWN storage object for a dict-valued variable.  A later
put_variable of a dict value is merged INTO that same object in place, so a
value that the module read before the write silently changes to the new value:
the "previous state" a module returns as its primary output is the new state.
For an immutable collection the object returned is the caller's own input dict
(so the output of apply aliases its input).

usage: unchanged_defect_3.py <flax root>
"""
import sys
root = sys.argv[1] if len(sys.argv) > 1 else '/repo'
sys.path.insert(0, '/verif/seeded'); import compat  # noqa
sys.path.insert(0, root)
import jax, jax.numpy as jnp, numpy as np
import flax, flax.linen as nn
print('flax from', flax.__file__)
bad = []

class M(nn.Module):
  @nn.compact
  def __call__(self, x):
    prev = self.get_variable('cache', 'kv')                 # read the old value
    self.put_variable('cache', 'kv', {'k': prev['k'] + x})  # write a NEW dict
    return prev                                             # expected: the old value

inp = {'cache': {'kv': {'k': jnp.zeros(())}}}
prev, state = M().apply(inp, 5.0, mutable='cache')
if float(prev['k']) != 0.0:
  bad.append(f'value read before the write is now {float(prev["k"])} (expected the old value 0.0)')
if float(inp['cache']['kv']['k']) != 0.0:
  bad.append('input changed')

class V(nn.Module):
  @nn.compact
  def __call__(self, x):
    var = self.variable('cache', 'kv', lambda: {'k': jnp.zeros(())}, unbox=False)
    prev = var.value
    var.value = {'k': prev['k'] + x}
    return prev
prev, _ = V().apply(inp, 5.0, mutable='cache')
if float(prev['k']) != 0.0:
  bad.append(f'Variable(unbox=False).value read before the write is now {float(prev["k"])}')

class R(nn.Module):
  @nn.compact
  def __call__(self):
    return self.get_variable('cache', 'kv')
out = R().apply(inp)
if out is inp['cache']['kv']:
  bad.append('apply(mutable=False) returns the caller\'s own input dict object (output aliases input)')

if bad:
  print('DEFECT PRESENT')
  for b in bad: print(' -', b)
  sys.exit(1)
print('no defect observed')
