"""UNCHANGED-TREE DEFECT 1 (property C01: apply never changes the variables passed in; repeated calls agree).

nn.Conv / nn.ConvLocal / nn.ConvTranspose with the documented `mask=` option do
`kernel *= self.mask` on the value returned by self.param (flax/linen/linear.py,
two sites).  Parameters of a non-mutable collection are handed to the module BY
REFERENCE, so when the caller's parameters are numpy arrays (e.g. a restored /
host-side checkpoint, `jax.tree.map(np.array, params)`), the augmented assignment
is an IN-PLACE numpy multiply on the caller's own array:
  * Module.apply(mutable=False) changes the `variables` that were passed in,
  * repeating the same call returns a different output (mask applied again),
  * (needs a numpy `mask`: with a jax-array mask numpy defers to jax and no
    in-place update happens; a FrozenDict around the variables does not help,
    the leaves are shared),
  * with read-only numpy arrays (flax.serialization.from_bytes returns those)
    apply raises "output array is read-only" although the same parameters as
    jax arrays work.

usage: unchanged_defect_1.py <flax root>   (prints what is wrong, exits 1 if the defect is present)
"""
import sys
root = sys.argv[1] if len(sys.argv) > 1 else '/repo'
sys.path.insert(0, '/verif/seeded'); import compat  # noqa
sys.path.insert(0, root)
import jax, jax.numpy as jnp, numpy as np
import flax, flax.linen as nn
from flax import serialization
print('flax from', flax.__file__)

bad = []
for name, make in [
  ('Conv', lambda mask: nn.Conv(features=2, kernel_size=(3,), mask=mask, padding='SAME')),
  ('ConvTranspose', lambda mask: nn.ConvTranspose(features=2, kernel_size=(3,), mask=mask, padding='SAME')),
]:
  mask = np.full((3, 1, 2), 0.5, np.float32)
  m = make(mask)
  x = jnp.ones((1, 5, 1))
  v = m.init(jax.random.key(0), x)
  ref = m.apply(v, x)                                   # jax-array parameters: fine
  vnp = jax.tree.map(lambda a: np.array(a), v)           # writable numpy copies of the same parameters
  before = vnp['params']['kernel'].copy()
  y1 = m.apply(vnp, x)
  y2 = m.apply(vnp, x)
  if not np.array_equal(before, vnp['params']['kernel']):
    bad.append(f'{name}: apply(mutable=False) changed the caller\'s params in place: '
               f'{before.ravel()[:3]} -> {vnp["params"]["kernel"].ravel()[:3]}')
  if not np.array_equal(y1, y2):
    bad.append(f'{name}: the same apply call repeated gives a different output')
  if not np.allclose(y1, ref):
    bad.append(f'{name}: numpy params give a different output than jax params')
  restored = serialization.from_bytes(v, serialization.to_bytes(v))   # read-only numpy arrays
  try:
    m.apply(restored, x)
  except ValueError as e:
    bad.append(f'{name}: apply raises for parameters restored with serialization.from_bytes: {e}')

if bad:
  print('DEFECT PRESENT')
  for b in bad: print(' -', b)
  sys.exit(1)
print('no defect observed')
