"""UNCHANGED-TREE DEFECT 7 (adjacent to C01, flax/core/frozen_dict.py: a FrozenDict handed to apply is supposed to be immutable).

FrozenDict.tree_unflatten builds the new FrozenDict with __unsafe_skip_copy__=True
("data is already deep copied due to tree map mechanism").  That only holds for
dict nodes that jax rebuilt itself.  When the mapped function RETURNS a dict (or
is_leaf stops at a dict), the caller's dict is stored by reference inside the
FrozenDict: editing that dict afterwards changes the "immutable" FrozenDict, and
its cached hash goes stale (a FrozenDict used as a Module attribute / static jit
argument then hashes like its old content).

usage: unchanged_defect_7.py <flax root>
"""
import sys
root = sys.argv[1] if len(sys.argv) > 1 else '/repo'
sys.path.insert(0, '/verif/seeded'); import compat  # noqa
sys.path.insert(0, root)
import jax, jax.numpy as jnp, numpy as np
import flax
from flax.core import FrozenDict
print('flax from', flax.__file__)
bad = []
stats = {'mean': 0.0}
fd = jax.tree.map(lambda _: stats, FrozenDict({'bn': 0}))      # e.g. "replace every leaf by a fresh stats dict"
h = hash(fd)
before = fd['bn']['mean']
stats['mean'] = 1.0                                             # the caller keeps using its own dict
if fd['bn']['mean'] != before:
  bad.append(f'FrozenDict content changed after construction: {before} -> {fd["bn"]["mean"]}')
if hash(fd) == h and fd != FrozenDict({'bn': {'mean': 0.0}}):
  bad.append('hash is stale: the FrozenDict still hashes like its old content')
if bad:
  print('DEFECT PRESENT')
  for b in bad: print(' -', b)
  sys.exit(1)
print('no defect observed')
