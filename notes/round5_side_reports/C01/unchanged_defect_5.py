"""UNCHANGED-TREE DEFECT 5 (property C01: perturb without a perturbation collection never changes the primary output - bit level).

When no 'perturbations' collection is passed but the collection is mutable
(apply(..., mutable=True) or a DenyList filter), Module.perturb creates a zero
perturbation and returns value + 0.  Adding +0.0 is not the identity on IEEE
floats: -0.0 becomes +0.0, so the primary output is not bit-identical to the
output of the same call with mutable=False (where perturb is a no-op).

usage: unchanged_defect_5.py <flax root>
"""
import sys
root = sys.argv[1] if len(sys.argv) > 1 else '/repo'
sys.path.insert(0, '/verif/seeded'); import compat  # noqa
sys.path.insert(0, root)
import jax, jax.numpy as jnp, numpy as np
import flax, flax.linen as nn
print('flax from', flax.__file__)

class P(nn.Module):
  @nn.compact
  def __call__(self, x):
    return self.perturb('p', x)

x = jnp.array([-0.0, 1.0], jnp.float32)
y0 = P().apply({}, x)                      # no collection, not mutable: no-op
y1, st = P().apply({}, x, mutable=True)    # no collection passed in either
b0, b1 = np.asarray(y0).tobytes(), np.asarray(y1).tobytes()
if b0 != b1:
  print('DEFECT PRESENT')
  print(' - primary output bits differ: signbit', np.signbit(np.asarray(y0)), 'vs', np.signbit(np.asarray(y1)))
  sys.exit(1)
print('no defect observed')
