"""UNCHANGED-TREE DEFECT 6 (property C01: new values are returned, nothing is written in place after the call).

core.apply invalidates only the ROOT scope when it returns (Scope.temporary);
child scopes, and the rewound copy that a top-level compact module holds, stay
valid.  The dict returned by apply is the scope's own storage (no copy when
flax_return_frozendict is off), so a Variable handle of a sub-module that
outlives the call can still be assigned: the write is accepted (no
InvalidScopeError) and changes, in place, the state that apply has ALREADY
returned to the caller.  The same handle taken from the top-level scope raises
as intended.

usage: unchanged_defect_6.py <flax root>
"""
import sys
root = sys.argv[1] if len(sys.argv) > 1 else '/repo'
sys.path.insert(0, '/verif/seeded'); import compat  # noqa
sys.path.insert(0, root)
import jax, jax.numpy as jnp, numpy as np
import flax, flax.linen as nn
from flax import core
print('flax from', flax.__file__)
bad = []
leak = {}

def child_fn(scope, x):
  v = scope.variable('cnt', 'n', lambda: jnp.zeros(()))
  leak['child'] = v
  v.value = v.value + 1
  return x
def root_fn(scope, x):
  leak['root'] = scope.variable('cnt', 'top', lambda: jnp.zeros(()))
  return scope.child(child_fn, 'sub')(x)

_, state = core.apply(root_fn, mutable='cnt')({'cnt': {'top': jnp.zeros(()), 'sub': {'n': jnp.zeros(())}}}, 1.0)
assert float(state['cnt']['sub']['n']) == 1.0
try:
  leak['root'].value = jnp.full((), 7.)
  bad.append('write through a ROOT-scope variable after apply returned was accepted')
except flax.errors.InvalidScopeError:
  pass                                             # intended behaviour
try:
  leak['child'].value = jnp.full((), 99.)
  bad.append(f'write through a CHILD-scope variable after apply returned was accepted; the state returned earlier is now {state}')
except flax.errors.InvalidScopeError:
  pass

if bad:
  print('DEFECT PRESENT')
  for b in bad: print(' -', b)
  sys.exit(1)
print('no defect observed')
