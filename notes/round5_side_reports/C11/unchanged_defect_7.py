"""Unchanged tree: step order is computed on float(step text).
 (a) integer steps >= 2**53 (e.g. time.time_ns()-style steps, ~1.7e18) that differ by less than the float spacing
     compare equal: the legacy back-end accepts an OLDER step without overwrite, and latest_checkpoint /
     restore_checkpoint then return the smaller step; retention may delete the newer one.
 (b) the same step written as int and as float (5 and 5.0) gives two checkpoints 'checkpoint_5' and 'checkpoint_5.0'
     at the same step; the second save does not raise although the step exists and overwrite=False.
 (c) keep=0 keeps every checkpoint (checkpoint_files[:-0] is empty) instead of none / raising.
Violates: 'latest' is the numerically largest step for ints; legacy rejects every step older than the latest;
a save at an existing step without overwrite raises."""
import sys, os, tempfile
sys.path.insert(0, '/verif/seeded'); import compat
sys.path.insert(0, sys.argv[1] if len(sys.argv) > 1 else '/repo')
import warnings; warnings.simplefilter('ignore')
import numpy as np
import flax
from flax import config
from flax.training import checkpoints as cp
from absl import logging as _al; _al.set_verbosity(_al.FATAL)
print('flax from', flax.__file__)

def tree(v): return {'a': np.full((3,), v, np.float32), 'b': {'c': np.array(v, np.int32)}}
def ls(d): return sorted(os.listdir(d))
def legacy(): config.update('flax_use_orbax_checkpointing', False)
def orbax(): config.update('flax_use_orbax_checkpointing', True)
bad = []
def defect(msg): bad.append(msg); print('DEFECT:', msg)
def finish():
  print('REPRODUCED %d defect symptom(s)' % len(bad) if bad else 'not reproduced')
  sys.exit(1 if bad else 0)
legacy(); d = tempfile.mkdtemp(); N = 2**53
cp.save_checkpoint(d, tree(1), N + 1, keep=3)
try:
  cp.save_checkpoint(d, tree(0), N, keep=3)
  lat = os.path.basename(cp.latest_checkpoint(d))
  defect('(a) legacy accepted the older step %d after %d; latest_checkpoint = %s; restore gives a=%s'
         % (N, N + 1, lat, cp.restore_checkpoint(d, None)['a']))
except Exception as e: print('(a) rejected', type(e).__name__)
legacy(); d = tempfile.mkdtemp()
cp.save_checkpoint(d, tree(1), 5, keep=3)
try: cp.save_checkpoint(d, tree(2), 5.0, keep=3); defect('(b) step 5.0 accepted although step 5 exists: %s' % ls(d))
except Exception as e: print('(b) rejected', type(e).__name__)
d = tempfile.mkdtemp()
for s in (1, 2, 3): cp.save_checkpoint(d, tree(s), s, keep=0)
if len(ls(d)) == 3: defect('(c) keep=0 keeps everything: %s' % ls(d))
finish()
