"""Unchanged tree, Orbax back-end (the default): save_checkpoint(..., overwrite=True) at a step that already exists
passes force=True to Orbax, which DELETES the committed checkpoint first and only then starts writing the new one.
Anything that stops the save after that point - a process death, or just an ordinary exception raised by the save
(here: a tree Orbax cannot store) - leaves the directory with NEITHER the previous nor the new checkpoint; with keep=1
the directory is empty and restore_checkpoint silently returns the target.  A death inside the (non-atomic, recursive)
delete leaves a half-deleted 'checkpoint_6' that latest_checkpoint still returns and that cannot be restored.
Violates: 'if save_checkpoint is interrupted at any point, restore/latest still return a complete checkpoint
(the previous latest or the new one)'.  The legacy back-end is fine (atomic rename over the old file)."""
import sys, os, tempfile
sys.path.insert(0, '/verif/seeded'); import compat
sys.path.insert(0, sys.argv[1] if len(sys.argv) > 1 else '/repo')
import warnings; warnings.simplefilter('ignore')
import numpy as np
import flax
from flax import config
from flax.training import checkpoints as cp
from absl import logging as _al; _al.set_verbosity(_al.FATAL)
print('flax from', flax.__file__)

def tree(v): return {'a': np.full((3,), v, np.float32), 'b': {'c': np.array(v, np.int32)}}
def ls(d): return sorted(os.listdir(d))
def legacy(): config.update('flax_use_orbax_checkpointing', False)
def orbax(): config.update('flax_use_orbax_checkpointing', True)
bad = []
def defect(msg): bad.append(msg); print('DEFECT:', msg)
def finish():
  print('REPRODUCED %d defect symptom(s)' % len(bad) if bad else 'not reproduced')
  sys.exit(1 if bad else 0)
class Kill(BaseException): pass
from orbax.checkpoint._src.checkpointers import checkpointer as ck

# (a) process dies right after Orbax removed the old checkpoint (before the temporary directory is created)
orbax(); d = tempfile.mkdtemp()
cp.save_checkpoint(d, tree(6), 6, keep=1)
orig = ck.Checkpointer.get_temporary_path
def boom(self, *a, **k): raise Kill()
ck.Checkpointer.get_temporary_path = boom
try: cp.save_checkpoint(d, tree(66), 6, keep=1, overwrite=True)
except Kill: pass
finally: ck.Checkpointer.get_temporary_path = orig
print('(a) after simulated death:', ls(d), 'latest =', cp.latest_checkpoint(d))
if cp.latest_checkpoint(d) is None:
  defect('(a) death during overwrite=True save of the only checkpoint: directory holds no checkpoint at all, '
         'restore_checkpoint returns %r' % (cp.restore_checkpoint(d, None),))

# (b) no crash at all: the overwriting save raises an ordinary exception (zero-size array is rejected by Orbax)
d = tempfile.mkdtemp()
cp.save_checkpoint(d, tree(6), 6, keep=1)
try: cp.save_checkpoint(d, {'z': np.zeros((0,), np.float32)}, 6, keep=1, overwrite=True)
except ValueError as e: print('(b) save raised ValueError:', str(e)[:60])
print('(b) directory now:', ls(d), 'latest =', cp.latest_checkpoint(d))
if cp.latest_checkpoint(d) is None:
  defect('(b) a FAILED (exception, no crash) overwrite=True save destroyed the committed checkpoint of that step')

# (c) death in the middle of Orbax's recursive delete of the old checkpoint: half-deleted directory is "latest"
d = tempfile.mkdtemp()
cp.save_checkpoint(d, tree(5), 5, keep=2); cp.save_checkpoint(d, tree(6), 6, keep=2)
import shutil
real_rmtree = shutil.rmtree
def torn_rmtree(path, *a, **k):
  path = os.fspath(path)
  if os.path.basename(path) == 'checkpoint_6':
    names = sorted(os.listdir(path))
    print('    entries of checkpoint_6:', names)
    for n in names[1:]:                             # delete all entries but one, then die
      victim = os.path.join(path, n)
      (real_rmtree if os.path.isdir(victim) else os.remove)(victim)
    raise Kill()
  return real_rmtree(path, *a, **k)
shutil.rmtree = torn_rmtree
try: cp.save_checkpoint(d, tree(66), 6, keep=2, overwrite=True)
except Kill: pass
finally: shutil.rmtree = real_rmtree
lat = cp.latest_checkpoint(d)
print('(c) after death inside delete:', ls(d), 'latest =', lat)
try:
  r = cp.restore_checkpoint(d, None)
  ok = np.array_equal(r['a'], tree(6)['a']) or np.array_equal(r['a'], tree(66)['a']) or np.array_equal(r['a'], tree(5)['a'])
  if not ok: defect('(c) restore returned garbage %r' % (r,))
except BaseException as e:
  defect('(c) latest_checkpoint returns the half-deleted %s and restore_checkpoint fails: %s: %s'
         % (os.path.basename(lat), type(e).__name__, str(e)[:80].replace('\n', ' ')))
finish()
