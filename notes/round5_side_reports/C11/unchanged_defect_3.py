"""Unchanged tree, both back-ends: a prefix containing a glob metacharacter ('[', ']', '*', '?'), e.g.
prefix='run[1]_'.  Listing uses PurePath.match(f'{prefix}*'), which interprets the prefix as a pattern, so the files
'run[1]_<step>' written by save_checkpoint never match: retention never removes anything (keep=1 leaves every
checkpoint), latest_checkpoint returns None and restore_checkpoint(dir) silently returns the target although
checkpoints exist; the legacy back-end also accepts saves at existing/older steps' neighbours (no 'outdated' check).
Violates: retention is exact for every prefix; 'latest' is the largest step."""
import sys, os, tempfile
sys.path.insert(0, '/verif/seeded'); import compat
sys.path.insert(0, sys.argv[1] if len(sys.argv) > 1 else '/repo')
import warnings; warnings.simplefilter('ignore')
import numpy as np
import flax
from flax import config
from flax.training import checkpoints as cp
from absl import logging as _al; _al.set_verbosity(_al.FATAL)
print('flax from', flax.__file__)

def tree(v): return {'a': np.full((3,), v, np.float32), 'b': {'c': np.array(v, np.int32)}}
def ls(d): return sorted(os.listdir(d))
def legacy(): config.update('flax_use_orbax_checkpointing', False)
def orbax(): config.update('flax_use_orbax_checkpointing', True)
bad = []
def defect(msg): bad.append(msg); print('DEFECT:', msg)
def finish():
  print('REPRODUCED %d defect symptom(s)' % len(bad) if bad else 'not reproduced')
  sys.exit(1 if bad else 0)
P = 'run[1]_'
for be in (orbax, legacy):
  be(); d = tempfile.mkdtemp()
  for s in (1, 2, 3): cp.save_checkpoint(d, tree(s), s, prefix=P, keep=1)
  print(be.__name__, 'directory:', ls(d), 'latest =', cp.latest_checkpoint(d, P))
  if len(ls(d)) != 1: defect('%s: keep=1 but directory holds %s' % (be.__name__, ls(d)))
  if cp.latest_checkpoint(d, P) is None: defect('%s: latest_checkpoint is None although 3 checkpoints exist' % be.__name__)
  if cp.restore_checkpoint(d, None, prefix=P) is None: defect('%s: restore_checkpoint(dir) returned the target (None)' % be.__name__)
legacy(); d = tempfile.mkdtemp()
cp.save_checkpoint(d, tree(5), 5, prefix=P, keep=3)
try:
  cp.save_checkpoint(d, tree(2), 2, prefix=P, keep=3)
  defect('legacy: older step 2 accepted after step 5 without overwrite: %s' % ls(d))
except Exception as e: print('older step rejected', type(e).__name__)
finish()
