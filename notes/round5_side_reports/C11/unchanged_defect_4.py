"""Unchanged tree, Orbax back-end with the documented option orbax_checkpointer=ocp.AsyncCheckpointer(...):
save_checkpoint calls _remove_invalid_ckpts right after orbax_checkpointer.save() returns, but an AsyncCheckpointer
commits (renames the temporary directory) later in the background, so retention runs while the new checkpoint is
still '<step>.orbax-checkpoint-tmp' and is ignored.  After everything has finished (wait_until_finished):
 * keep=k leaves k+1 checkpoints,
 * overwrite=True at an existing/older step does not remove the newer checkpoints.
(Same mechanism as the repaired save_checkpoint_multiprocess defect 5826857, different entry point/option.)
The final directory state is deterministic: every save first waits for the previous one."""
import sys, os, tempfile
sys.path.insert(0, '/verif/seeded'); import compat
sys.path.insert(0, sys.argv[1] if len(sys.argv) > 1 else '/repo')
import warnings; warnings.simplefilter('ignore')
import numpy as np
import flax
from flax import config
from flax.training import checkpoints as cp
from absl import logging as _al; _al.set_verbosity(_al.FATAL)
print('flax from', flax.__file__)

def tree(v): return {'a': np.full((3,), v, np.float32), 'b': {'c': np.array(v, np.int32)}}
def ls(d): return sorted(os.listdir(d))
def legacy(): config.update('flax_use_orbax_checkpointing', False)
def orbax(): config.update('flax_use_orbax_checkpointing', True)
bad = []
def defect(msg): bad.append(msg); print('DEFECT:', msg)
def finish():
  print('REPRODUCED %d defect symptom(s)' % len(bad) if bad else 'not reproduced')
  sys.exit(1 if bad else 0)
import orbax.checkpoint as ocp
orbax()
ac = ocp.AsyncCheckpointer(ocp.PyTreeCheckpointHandler())
sc = ocp.Checkpointer(ocp.PyTreeCheckpointHandler())
res = {}
for name, c in (('sync', sc), ('async', ac)):
  d = tempfile.mkdtemp()
  for s in (1, 2, 3, 4): cp.save_checkpoint(d, tree(s), s, keep=1, orbax_checkpointer=c)
  if name == 'async': c.wait_until_finished()
  d2 = tempfile.mkdtemp()
  for s in (1, 2, 3): cp.save_checkpoint(d2, tree(s), s, keep=5, orbax_checkpointer=c)
  cp.save_checkpoint(d2, tree(20), 2, keep=5, overwrite=True, orbax_checkpointer=c)
  if name == 'async': c.wait_until_finished()
  res[name] = (ls(d), ls(d2))
  print(name, 'keep=1 after steps 1..4 ->', ls(d), '| steps 1,2,3 then overwrite=True at 2 ->', ls(d2))
if res['async'][0] != ['checkpoint_4']: defect('AsyncCheckpointer: keep=1 leaves %s' % res['async'][0])
if 'checkpoint_3' in res['async'][1]: defect('AsyncCheckpointer: overwrite=True at step 2 left the newer checkpoint_3: %s' % res['async'][1])
finish()
