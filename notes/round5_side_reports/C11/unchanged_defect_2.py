"""Unchanged tree, both back-ends: two checkpoint series in ONE directory whose prefixes extend each other
(e.g. prefix='ckpt_' for the regular series and prefix='ckpt_best_' for the best-so-far series - a common set-up).
Files of the longer prefix match the pattern '<short prefix>*' and, after the prefix is stripped, start with a
non-numeric string, so they sort AFTER every real step of the short series.  Consequences for the series 'ckpt_':
 * Orbax back-end: retention with keep=1 keeps 'ckpt_best_3' as 'the newest' and deletes every checkpoint that is
   saved, including the one just written; latest_checkpoint(dir, 'ckpt_') returns the other series' file.
 * legacy back-end: every save is rejected with InvalidCheckpointError ('outdated'), starting with the first one.
Violates: retention is exact / 'latest' is the numerically largest step / any later step saves normally."""
import sys, os, tempfile
sys.path.insert(0, '/verif/seeded'); import compat
sys.path.insert(0, sys.argv[1] if len(sys.argv) > 1 else '/repo')
import warnings; warnings.simplefilter('ignore')
import numpy as np
import flax
from flax import config
from flax.training import checkpoints as cp
from absl import logging as _al; _al.set_verbosity(_al.FATAL)
print('flax from', flax.__file__)

def tree(v): return {'a': np.full((3,), v, np.float32), 'b': {'c': np.array(v, np.int32)}}
def ls(d): return sorted(os.listdir(d))
def legacy(): config.update('flax_use_orbax_checkpointing', False)
def orbax(): config.update('flax_use_orbax_checkpointing', True)
bad = []
def defect(msg): bad.append(msg); print('DEFECT:', msg)
def finish():
  print('REPRODUCED %d defect symptom(s)' % len(bad) if bad else 'not reproduced')
  sys.exit(1 if bad else 0)
for be in (orbax, legacy):
  be(); d = tempfile.mkdtemp()
  cp.save_checkpoint(d, tree(100), 3, prefix='ckpt_best_', keep=1)
  try:
    for s in (1, 2, 3, 4):
      cp.save_checkpoint(d, tree(s), s, prefix='ckpt_', keep=1)
  except Exception as e:
    defect('%s: save of step %d under prefix ckpt_ rejected: %s' % (be.__name__, s, type(e).__name__))
    continue
  lat = cp.latest_checkpoint(d, 'ckpt_')
  print(be.__name__, 'directory:', ls(d), 'latest(ckpt_) =', lat and os.path.basename(lat))
  if 'ckpt_4' not in ls(d):
    defect('%s: after saving steps 1..4 with keep=1 under prefix ckpt_, ckpt_4 is gone; directory = %s' % (be.__name__, ls(d)))
  if lat is None or os.path.basename(lat) != 'ckpt_4':
    defect('%s: latest_checkpoint(dir, "ckpt_") = %s' % (be.__name__, lat and os.path.basename(lat)))
finish()
