"""Unchanged tree, Orbax back-end (default): restoring does not return the tree that was saved.
 (a) SILENT CORRUPTION: a dict key containing '.' collides with a nested path: {'a.b': x, 'a': {'b': y}} is saved
     without error, but restore_checkpoint (with or without target) returns x for BOTH leaves (y is lost).
     ('a/b' vs nested a->b: save succeeds, restore with a target raises 'Too few leaves').
 (b) a tree with a str leaf ({'name': 'run7', 'w': array}) is saved fine and restores with target=None, but
     restore_checkpoint(dir, target=<same tree>) raises: orbax_utils.restore_args_from_target maps EVERY leaf to
     RestoreArgs(restore_type=np.ndarray), so Orbax looks for an array named 'name'.
The legacy back-end round-trips all of these.  Violates: restoring a retained step returns exactly the tree saved."""
import sys, os, tempfile
sys.path.insert(0, '/verif/seeded'); import compat
sys.path.insert(0, sys.argv[1] if len(sys.argv) > 1 else '/repo')
import warnings; warnings.simplefilter('ignore')
import numpy as np
import flax
from flax import config
from flax.training import checkpoints as cp
from absl import logging as _al; _al.set_verbosity(_al.FATAL)
print('flax from', flax.__file__)

def tree(v): return {'a': np.full((3,), v, np.float32), 'b': {'c': np.array(v, np.int32)}}
def ls(d): return sorted(os.listdir(d))
def legacy(): config.update('flax_use_orbax_checkpointing', False)
def orbax(): config.update('flax_use_orbax_checkpointing', True)
bad = []
def defect(msg): bad.append(msg); print('DEFECT:', msg)
def finish():
  print('REPRODUCED %d defect symptom(s)' % len(bad) if bad else 'not reproduced')
  sys.exit(1 if bad else 0)
orbax()
t = {'a.b': np.array([1.]), 'a': {'b': np.array([2.])}}
d = tempfile.mkdtemp(); cp.save_checkpoint(d, t, 1)
for tgt in (None, t):
  r = cp.restore_checkpoint(d, tgt)
  print('(a) restored with target=%s:' % ('None' if tgt is None else 'tree'), r)
  if float(r['a']['b'][0]) != 2.0 or float(r['a.b'][0]) != 1.0:
    defect("(a) saved {'a.b': [1.], 'a': {'b': [2.]}}, restored 'a.b'=%s a/b=%s (target %s) - one leaf silently replaced by the other"
           % (r['a.b'], r['a']['b'], 'given' if tgt else 'None'))
t = {'a/b': np.array([1.]), 'a': {'b': np.array([2.])}}
d = tempfile.mkdtemp(); cp.save_checkpoint(d, t, 1)
try: cp.restore_checkpoint(d, t)
except Exception as e: defect("(a') {'a/b':..,'a':{'b':..}} saved but restore with target raises %s: %s" % (type(e).__name__, str(e)[:60]))
t = {'name': 'run7', 'w': np.array([1., 2.])}
d = tempfile.mkdtemp(); cp.save_checkpoint(d, t, 1)
print('(b) target=None ->', cp.restore_checkpoint(d, None))
try: print('(b) target=tree ->', cp.restore_checkpoint(d, t))
except Exception as e: defect('(b) str leaf: restore with the saved tree as target raises %s: %s' % (type(e).__name__, str(e)[:70].replace('\n', ' ')))
legacy()
for t in ({'a.b': np.array([1.]), 'a': {'b': np.array([2.])}}, {'name': 'run7', 'w': np.array([1., 2.])}):
  d = tempfile.mkdtemp(); cp.save_checkpoint(d, t, 1); print('legacy round trip:', cp.restore_checkpoint(d, t))
finish()
