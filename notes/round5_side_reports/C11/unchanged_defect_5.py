"""Unchanged tree, legacy (msgpack) back-end in a directory that also saw the Orbax back-end: _check_overwrite_error
lists every '<prefix>*' entry and, unlike latest_checkpoint/_remove_invalid_ckpts, does not ignore Orbax temporaries.
 (a) an interrupted Orbax save of step 6 leaves 'checkpoint_6.orbax-checkpoint-tmp'; retrying step 6 with the legacy
     back-end (e.g. the job was restarted with flax_use_orbax_checkpointing=False) raises InvalidCheckpointError
     although step 6 was never committed (latest is 5);
 (b) the trash directory 'checkpoint_7.orbax-checkpoint-tmp-deleting' left by an interrupted removal of the Orbax
     checkpoint 7 (overwrite=True at step 6) has the same effect for a legacy save of step 7.
Violates: 'retrying the interrupted step succeeds unless it had already been committed'."""
import sys, os, tempfile
sys.path.insert(0, '/verif/seeded'); import compat
sys.path.insert(0, sys.argv[1] if len(sys.argv) > 1 else '/repo')
import warnings; warnings.simplefilter('ignore')
import numpy as np
import flax
from flax import config
from flax.training import checkpoints as cp
from absl import logging as _al; _al.set_verbosity(_al.FATAL)
print('flax from', flax.__file__)

def tree(v): return {'a': np.full((3,), v, np.float32), 'b': {'c': np.array(v, np.int32)}}
def ls(d): return sorted(os.listdir(d))
def legacy(): config.update('flax_use_orbax_checkpointing', False)
def orbax(): config.update('flax_use_orbax_checkpointing', True)
bad = []
def defect(msg): bad.append(msg); print('DEFECT:', msg)
def finish():
  print('REPRODUCED %d defect symptom(s)' % len(bad) if bad else 'not reproduced')
  sys.exit(1 if bad else 0)
orbax(); d = tempfile.mkdtemp()
cp.save_checkpoint(d, tree(5), 5, keep=2)
os.makedirs(os.path.join(d, 'checkpoint_6.orbax-checkpoint-tmp'))   # what an interrupted Orbax save of step 6 leaves
legacy()
print('(a) directory:', ls(d), 'latest =', os.path.basename(cp.latest_checkpoint(d)))
try: cp.save_checkpoint(d, tree(6), 6, keep=2); print('retry of step 6 ok', ls(d))
except Exception as e: defect('(a) legacy retry of the uncommitted step 6 rejected: %s' % type(e).__name__)

class Kill(BaseException): pass
from flax import io
orbax(); d = tempfile.mkdtemp()
for s in (5, 6, 7): cp.save_checkpoint(d, tree(s), s, keep=3)
real = io.rmtree
def die(path):
  if path.endswith('-deleting'): raise Kill()
  return real(path)
io.rmtree = die
try: cp.save_checkpoint(d, tree(60), 6, keep=3, overwrite=True)
except Kill: pass
finally: io.rmtree = real
print('(b) directory after death while removing the newer step 7:', ls(d), 'latest =', os.path.basename(cp.latest_checkpoint(d)))
legacy()
try: cp.save_checkpoint(d, tree(7), 7, keep=3); print('legacy save of step 7 ok', ls(d))
except Exception as e: defect('(b) legacy save of step 7 (not present, latest is 6) rejected: %s' % type(e).__name__)
finish()
