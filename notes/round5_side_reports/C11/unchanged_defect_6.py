"""Unchanged tree, both back-ends: keep_every_n_steps never retains step 0.  _remove_invalid_ckpts tests
'if step_number and (step_number - last_kept) >= keep_every_n_steps', and 0.0 is falsy, so the guard meant for
'no number in the file name' (None) also fires for step 0 (and 0.0, -0.0).  The same history shifted by one step
retains its first checkpoint.  Violates: directory holds the keep newest plus those retained by keep_every_n_steps."""
import sys, os, tempfile
sys.path.insert(0, '/verif/seeded'); import compat
sys.path.insert(0, sys.argv[1] if len(sys.argv) > 1 else '/repo')
import warnings; warnings.simplefilter('ignore')
import numpy as np
import flax
from flax import config
from flax.training import checkpoints as cp
from absl import logging as _al; _al.set_verbosity(_al.FATAL)
print('flax from', flax.__file__)

def tree(v): return {'a': np.full((3,), v, np.float32), 'b': {'c': np.array(v, np.int32)}}
def ls(d): return sorted(os.listdir(d))
def legacy(): config.update('flax_use_orbax_checkpointing', False)
def orbax(): config.update('flax_use_orbax_checkpointing', True)
bad = []
def defect(msg): bad.append(msg); print('DEFECT:', msg)
def finish():
  print('REPRODUCED %d defect symptom(s)' % len(bad) if bad else 'not reproduced')
  sys.exit(1 if bad else 0)
for be in (orbax, legacy):
  be()
  out = {}
  for first in (0, 1, -10):
    d = tempfile.mkdtemp()
    for s in range(first, first + 40, 10): cp.save_checkpoint(d, tree(s), s, keep=1, keep_every_n_steps=10)
    out[first] = cp.available_steps(d)
  print(be.__name__, out)
  if 0 not in out[0] and 1 in out[1] and -10 in out[-10]:
    defect('%s: steps 0,10,20,30 keep=1 keep_every_n_steps=10 -> %s (0 dropped), but 1,11,21,31 -> %s and -10,0,10,20 -> %s'
           % (be.__name__, out[0], out[1], out[-10]))
finish()
