"""A bare Variable is a legal graph for split / merge / clone / update / graphdef, but
nnx.state(variable) raises IndexError (from_flat_state cannot nest the empty path)."""
import sys
sys.path.insert(0, '/verif/seeded'); import compat  # noqa
sys.path.insert(0, sys.argv[1] if len(sys.argv) > 1 else "/repo")
import collections, copy
import numpy as np
import jax, jax.numpy as jnp
import flax
from flax import nnx
print("flax from", flax.__file__)
found = []
def report(msg):
  found.append(msg); print("DEFECT:", msg)
def finish():
  print("%d defect symptom(s) reproduced" % len(found) if found else "nothing reproduced")
  sys.exit(1 if found else 0)
class Node(nnx.Module):
  pass

v = nnx.Param(jnp.ones(2), note='n')
gd, st = nnx.split(v); v2 = nnx.merge(gd, st); nnx.update(v2, st); nnx.clone(v)
print('split/merge/update/clone of a bare Variable: ok; split state =', type(st).__name__)
try:
  print(nnx.state(v))
except Exception as e:
  report('nnx.state(Param(..)) raised %s: %s' % (type(e).__name__, e))
try:
  print(nnx.state(v, nnx.Param))
except Exception as e:
  report('nnx.state(Param(..), nnx.Param) raised %s: %s' % (type(e).__name__, e))
finish()
