"""update with entries the graph does not have yet (e.g. putting a popped state back):
the attribute is set to the *VariableState* object itself (or, for a nested entry, to a
*State* object) instead of a Variable / sub-graph. pop -> update is therefore not an
inverse, and the graph that results no longer round-trips: the former Variable shows up
as a bare array under ('i', 'value') and its type/metadata are gone."""
import sys
sys.path.insert(0, '/verif/seeded'); import compat  # noqa
sys.path.insert(0, sys.argv[1] if len(sys.argv) > 1 else "/repo")
import collections, copy
import numpy as np
import jax, jax.numpy as jnp
import flax
from flax import nnx
print("flax from", flax.__file__)
found = []
def report(msg):
  found.append(msg); print("DEFECT:", msg)
def finish():
  print("%d defect symptom(s) reproduced" % len(found) if found else "nothing reproduced")
  sys.exit(1 if found else 0)
class Node(nnx.Module):
  pass

g = Node(); g.p = nnx.Param(1); g.i = nnx.Intermediate(jnp.ones(2), note='x')
before = nnx.state(g)
popped = nnx.pop(g, nnx.Intermediate)
nnx.update(g, popped)
print('type(g.i) after pop+update:', type(g.i).__name__)
after = nnx.state(g)
print('state paths before:', [p for p, _ in nnx.to_flat_state(before)])
print('state paths after :', [p for p, _ in nnx.to_flat_state(after)])
if not isinstance(g.i, nnx.Variable):
  report('nnx.update(g, popped_state) stored a %s as attribute instead of a Variable; '
         'nnx.state(g, nnx.Intermediate) is now %r' % (type(g.i).__name__, dict(nnx.state(g, nnx.Intermediate))))
# nested new entry: a State object becomes an attribute
src = Node(); src.p = nnx.Param(2); src.sub = Node(); src.sub.q = nnx.Param(3)
dst = Node(); dst.p = nnx.Param(1)
nnx.update(dst, nnx.state(src))
if not isinstance(dst.sub, nnx.Module):
  report('nested new entry: dst.sub is a %s, clone(dst) then has sub=%s' % (type(dst.sub).__name__, type(nnx.clone(dst).sub).__name__))
finish()
