"""Sharing/cycles are only preserved for Modules and Variables. A list/dict/tuple that is
referenced from two places comes back as two separate containers (aliasing lost), and a
list or dict that contains itself sends split into unbounded recursion."""
import sys
sys.path.insert(0, '/verif/seeded'); import compat  # noqa
sys.path.insert(0, sys.argv[1] if len(sys.argv) > 1 else "/repo")
import collections, copy
import numpy as np
import jax, jax.numpy as jnp
import flax
from flax import nnx
print("flax from", flax.__file__)
found = []
def report(msg):
  found.append(msg); print("DEFECT:", msg)
def finish():
  print("%d defect symptom(s) reproduced" % len(found) if found else "nothing reproduced")
  sys.exit(1 if found else 0)
class Node(nnx.Module):
  pass

g = Node(); shared = [nnx.Param(1)]; g.a = shared; g.b = shared; g.d = {'k': shared}
g2 = nnx.merge(*nnx.split(g))
print('before: g.a is g.b ->', g.a is g.b, '   after: g2.a is g2.b ->', g2.a is g2.b)
if g2.a is not g2.b or g2.d['k'] is not g2.a:
  report('two paths reached the same list before the round trip, different lists after '
         '(g2.a.append(..) is no longer visible through g2.b); the Variable inside is still shared: %s' % (g2.a[0] is g2.b[0]))
h = Node(); l = [nnx.Param(1)]; l.append(l); h.l = l
try:
  nnx.split(h)
except RecursionError:
  report('self-referential list: nnx.split raised RecursionError')
h = Node(); d = {}; d['self'] = d; h.d = d
try:
  nnx.split(h)
except RecursionError:
  report('self-referential dict: nnx.split raised RecursionError')
finish()
