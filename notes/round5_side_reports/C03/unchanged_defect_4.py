"""update from a State whose leaves are Variables (what nnx.variables() returns, and what
update itself accepts for NEW keys, where it copies the Variable): for an EXISTING key
the Variable object is stored as the raw value of the target, giving Param(value=Param(..))."""
import sys
sys.path.insert(0, '/verif/seeded'); import compat  # noqa
sys.path.insert(0, sys.argv[1] if len(sys.argv) > 1 else "/repo")
import collections, copy
import numpy as np
import jax, jax.numpy as jnp
import flax
from flax import nnx
print("flax from", flax.__file__)
found = []
def report(msg):
  found.append(msg); print("DEFECT:", msg)
def finish():
  print("%d defect symptom(s) reproduced" % len(found) if found else "nothing reproduced")
  sys.exit(1 if found else 0)
class Node(nnx.Module):
  pass

a = Node(); a.p = nnx.Param(1)
b = Node(); b.p = nnx.Param(2, note='b')
nnx.update(a, nnx.variables(b))
print('a.p =', a.p)
if isinstance(a.p.raw_value, nnx.Variable):
  report('a.p.raw_value is itself a %s after nnx.update(a, nnx.variables(b)); metadata not taken over: %r'
         % (type(a.p.raw_value).__name__, a.p.get_metadata()))
  try:
    nnx.merge(*nnx.split(a)); print('round trip still "works" with nested Variable')
  except Exception as e:
    report('and the graph no longer round-trips: %s' % e)
finish()
