"""Variable metadata named 'type' (or 'value') cannot be split: Variable.to_state passes
the metadata as **kwargs to VariableState(type, value, **metadata). Constructing and
using such a Variable is fine, split/state/clone/pop raise TypeError."""
import sys
sys.path.insert(0, '/verif/seeded'); import compat  # noqa
sys.path.insert(0, sys.argv[1] if len(sys.argv) > 1 else "/repo")
import collections, copy
import numpy as np
import jax, jax.numpy as jnp
import flax
from flax import nnx
print("flax from", flax.__file__)
found = []
def report(msg):
  found.append(msg); print("DEFECT:", msg)
def finish():
  print("%d defect symptom(s) reproduced" % len(found) if found else "nothing reproduced")
  sys.exit(1 if found else 0)
class Node(nnx.Module):
  pass

g = Node(); g.w = nnx.Param(jnp.ones(2), type='conv')
print('metadata:', g.w.get_metadata(), ' g.w.type ->', g.w.type)
for name, fn in [('split', lambda: nnx.split(g)), ('state', lambda: nnx.state(g)),
                 ('clone', lambda: nnx.clone(g)), ('graphdef', lambda: nnx.graphdef(g))]:
  try:
    fn()
  except TypeError as e:
    report('nnx.%s raised TypeError: %s' % (name, e))
p = nnx.Param(1); p.get_metadata()['value'] = 3
try:
  p.to_state()
except TypeError as e:
  report("metadata key 'value': %s" % e)
finish()
