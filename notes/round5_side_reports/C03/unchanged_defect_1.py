"""pop: a Variable that is shared between two nodes is only detached from the FIRST
parent. It stays reachable through every other path, so after
`nnx.pop(g, F)` the graph still contains a Variable selected by F (clause: "pop
removes exactly the selected Variables"; nnx.state(g, F) must be empty afterwards)."""
import sys
sys.path.insert(0, '/verif/seeded'); import compat  # noqa
sys.path.insert(0, sys.argv[1] if len(sys.argv) > 1 else "/repo")
import collections, copy
import numpy as np
import jax, jax.numpy as jnp
import flax
from flax import nnx
print("flax from", flax.__file__)
found = []
def report(msg):
  found.append(msg); print("DEFECT:", msg)
def finish():
  print("%d defect symptom(s) reproduced" % len(found) if found else "nothing reproduced")
  sys.exit(1 if found else 0)
class Node(nnx.Module):
  pass

a, b, g = Node(), Node(), Node()
v = nnx.Intermediate(jnp.ones(2))
a.v = v; b.v = v
g.a = a; g.b = b; g.p = nnx.Param(1)
popped = nnx.pop(g, nnx.Intermediate)
print('popped paths  :', [p for p, _ in nnx.to_flat_state(popped)])
left = nnx.state(g, nnx.Intermediate)
print('still in graph:', [p for p, _ in nnx.to_flat_state(left)])
if hasattr(b, 'v') or len(left):
  report("after nnx.pop(g, Intermediate) the shared Intermediate is still attached at ('b','v'); "
         'a second nnx.pop returns it again: %r' % [p for p, _ in nnx.to_flat_state(nnx.pop(g, nnx.Intermediate))])
# same thing inside one node (two attribute names for one Variable)
h = Node(); w = nnx.Intermediate(1); h.x = w; h.y = w
nnx.pop(h, nnx.Intermediate)
if hasattr(h, 'y'):
  report('one node, two attributes for the same Variable: pop removed only the first attribute (h.y still set)')
finish()
