"""update(g, state(g)) - the identity update - raises when g has an array leaf inside a
list/tuple/dict attribute (nnx.state lists such arrays, nnx.update refuses them), and the
failure happens half way: Variables that sort before the container are already updated,
those after it are not (update is not atomic)."""
import sys
sys.path.insert(0, '/verif/seeded'); import compat  # noqa
sys.path.insert(0, sys.argv[1] if len(sys.argv) > 1 else "/repo")
import collections, copy
import numpy as np
import jax, jax.numpy as jnp
import flax
from flax import nnx
print("flax from", flax.__file__)
found = []
def report(msg):
  found.append(msg); print("DEFECT:", msg)
def finish():
  print("%d defect symptom(s) reproduced" % len(found) if found else "nothing reproduced")
  sys.exit(1 if found else 0)
class Node(nnx.Module):
  pass

g = Node(); g.a = nnx.Param(1); g.xs = [jnp.ones(2)]; g.z = nnx.Param(5)
s = nnx.state(g)
try:
  nnx.update(g, s)
except Exception as e:
  report('nnx.update(g, nnx.state(g)) raised %s: %s' % (type(e).__name__, e))
s['a'].value = 100; s['z'].value = 500
try:
  nnx.update(g, s)
except Exception as e:
  print('a =', g.a.value, ' z =', g.z.value)
  if g.a.value == 100 and g.z.value == 5:
    report('failed update left the graph half-updated: a=100 (new) but z=5 (old)')
# the same array directly on a Module is accepted:
h = Node(); h.arr = jnp.ones(2); nnx.update(h, nnx.state(h))
finish()
