"""Smaller inconsistencies in the same code areas:
 * nnx.variables(g) lists a shared Variable under EVERY path, nnx.state(g) once (first path)
 * statelib.diff(a, b) raises AttributeError ('FlatState' has no 'items') for non-empty b
   (so does the deprecated `state_a - state_b`)
 * an invalid filter does not give the intended TypeError but a ValueError from a broken
   format spec ({filter:!r}) in filterlib.to_predicate
 * nnx.Dict: `key in d` raises AttributeError for a missing key, len(d) counts the hidden
   '_object__state' entry (len(d) != len(list(d)))"""
import sys
sys.path.insert(0, '/verif/seeded'); import compat  # noqa
sys.path.insert(0, sys.argv[1] if len(sys.argv) > 1 else "/repo")
import collections, copy
import numpy as np
import jax, jax.numpy as jnp
import flax
from flax import nnx
print("flax from", flax.__file__)
found = []
def report(msg):
  found.append(msg); print("DEFECT:", msg)
def finish():
  print("%d defect symptom(s) reproduced" % len(found) if found else "nothing reproduced")
  sys.exit(1 if found else 0)
class Node(nnx.Module):
  pass

a, b, g = Node(), Node(), Node(); v = nnx.Param(1); a.v = v; b.v = v; g.a = a; g.b = b
pv = [p for p, _ in nnx.to_flat_state(nnx.variables(g))]; ps = [p for p, _ in nnx.to_flat_state(nnx.state(g))]
if pv != ps: report('nnx.variables paths %r != nnx.state paths %r for a shared Variable' % (pv, ps))
h = Node(); h.p = nnx.Param(1); h.q = nnx.BatchStat(2)
try:
  nnx.statelib.diff(nnx.state(h), nnx.state(h, nnx.Param))
except AttributeError as e:
  report('statelib.diff raised AttributeError: %s' % e)
try:
  nnx.split(h, 3)
except TypeError:
  pass
except ValueError as e:
  report('nnx.split(h, 3): expected TypeError("Invalid collection filter"), got ValueError: %s' % e)
d = nnx.Dict({'a': nnx.Param(1)})
try:
  'zz' in d
except AttributeError as e:
  report("'zz' in nnx.Dict raised AttributeError: %s" % e)
if len(d) != len(list(d)): report('len(nnx.Dict)=%d but it iterates %d keys' % (len(d), len(list(d))))
finish()
