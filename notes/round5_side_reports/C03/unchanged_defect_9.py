"""Legal pytree containers that cannot be split at all:
 * a dict whose keys are not mutually comparable ({1: .., 'a': ..}) -> TypeError from sorted()
 * an instance of a plain tuple subclass (not a namedtuple, not registered with jax):
   flax treats every tuple instance as a pytree node, jax treats it as a leaf -> IndexError"""
import sys
sys.path.insert(0, '/verif/seeded'); import compat  # noqa
sys.path.insert(0, sys.argv[1] if len(sys.argv) > 1 else "/repo")
import collections, copy
import numpy as np
import jax, jax.numpy as jnp
import flax
from flax import nnx
print("flax from", flax.__file__)
found = []
def report(msg):
  found.append(msg); print("DEFECT:", msg)
def finish():
  print("%d defect symptom(s) reproduced" % len(found) if found else "nothing reproduced")
  sys.exit(1 if found else 0)
class Node(nnx.Module):
  pass

g = Node(); g.d = {1: nnx.Param(1), 'a': nnx.Param(2)}
try:
  nnx.split(g)
except TypeError as e:
  report('dict with int and str keys: nnx.split raised TypeError: %s' % e)
class Pair(tuple):
  pass
g = Node(); g.t = Pair((nnx.Param(1), nnx.Param(2)))
try:
  nnx.split(g)
except IndexError as e:
  report('plain tuple subclass attribute: nnx.split raised IndexError: %s' % e)
finish()
