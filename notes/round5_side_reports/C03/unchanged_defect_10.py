"""clone shares mutable objects with the original: numpy array attributes, numpy Variable
values and mutable (list/dict) Variable values are passed by reference. In-place
mutation through the clone (including the documented `variable += x`, which calls
ndarray.__iadd__) changes the original."""
import sys
sys.path.insert(0, '/verif/seeded'); import compat  # noqa
sys.path.insert(0, sys.argv[1] if len(sys.argv) > 1 else "/repo")
import collections, copy
import numpy as np
import jax, jax.numpy as jnp
import flax
from flax import nnx
print("flax from", flax.__file__)
found = []
def report(msg):
  found.append(msg); print("DEFECT:", msg)
def finish():
  print("%d defect symptom(s) reproduced" % len(found) if found else "nothing reproduced")
  sys.exit(1 if found else 0)
class Node(nnx.Module):
  pass

g = Node(); g.w = nnx.Param(np.zeros(2)); g.buf = np.zeros(2); g.hist = nnx.Variable([1, 2])
c = nnx.clone(g)
c.w += 1                      # Variable.__iadd__ -> in place on the shared ndarray
c.buf[0] = 7
c.hist.value.append(3)
print('original after mutating the clone: w=%s buf=%s hist=%s' % (g.w.value, g.buf, g.hist.value))
if g.w.value[0] == 1: report('clone.w += 1 changed original.w (shared numpy value)')
if g.buf[0] == 7: report('clone.buf[0] = 7 changed original.buf (shared numpy attribute)')
if g.hist.value == [1, 2, 3]: report('clone.hist.value.append changed original.hist (shared list value)')
finish()
