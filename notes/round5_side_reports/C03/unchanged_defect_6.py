"""pop is not atomic: when a selected Variable sits in a list/tuple/dict it raises
ValueError - but only after it has already detached every selected Variable that sorts
before it. The caller gets an exception, no state, and a graph that lost Variables."""
import sys
sys.path.insert(0, '/verif/seeded'); import compat  # noqa
sys.path.insert(0, sys.argv[1] if len(sys.argv) > 1 else "/repo")
import collections, copy
import numpy as np
import jax, jax.numpy as jnp
import flax
from flax import nnx
print("flax from", flax.__file__)
found = []
def report(msg):
  found.append(msg); print("DEFECT:", msg)
def finish():
  print("%d defect symptom(s) reproduced" % len(found) if found else "nothing reproduced")
  sys.exit(1 if found else 0)
class Node(nnx.Module):
  pass

g = Node(); g.a = nnx.Intermediate(1); g.m = Node(); g.m.i = nnx.Intermediate(2)
g.xs = [nnx.Intermediate(3)]; g.z = nnx.Intermediate(4)
before = [p for p, _ in nnx.to_flat_state(nnx.state(g))]
try:
  nnx.pop(g, nnx.Intermediate)
  print('no exception')
except ValueError as e:
  after = [p for p, _ in nnx.to_flat_state(nnx.state(g))]
  print('raised:', e); print('before:', before); print('after :', after)
  if after != before:
    report('pop raised but had already removed %r (values are lost to the caller)' % sorted(set(before) - set(after)))
finish()
