"""UNCHANGED-TREE DEFECT 13: method interceptors (nn.intercept_methods) are not part of the
nn.jit cache key: a trace made while an interceptor was active keeps being used after the
`with` block ended (and vice versa).

Same root cause as defect 6: state that lives in the module-level context
(flax.linen.module._context / the interceptor stack) changes what the Python body of a module
computes, but the fingerprint of a jitted module only covers the module and its scope.
usage: unchanged_defect_13.py /repo
"""
import sys
sys.path.insert(0, '/verif/seeded'); import compat  # noqa
sys.path.insert(0, sys.argv[1] if len(sys.argv) > 1 else '/repo')
import jax, jax.numpy as jnp
import flax, flax.linen as nn
print('flax from', flax.__file__)


class Inner(nn.Module):
  @nn.compact
  def __call__(self, x):
    return nn.Dense(2, kernel_init=nn.initializers.ones)(x)


def make(lifted):
  I = nn.jit(Inner) if lifted else Inner

  class M(nn.Module):
    @nn.compact
    def __call__(self, x):
      return I(name='inner')(x)
  return M()


def negate_dense(next_fun, args, kwargs, context):
  y = next_fun(*args, **kwargs)
  return -y if isinstance(context.module, nn.Dense) else y


x = jnp.ones((1, 3))
params = make(False).init(jax.random.key(0), x)
res = {}
for lifted in (False, True):
  m = make(lifted)
  with nn.intercept_methods(negate_dense):
    a = m.apply(params, x)
  b = m.apply(params, x)  # interceptor gone
  res[lifted] = (a.tolist(), b.tolist())
  print('nn.jit' if lifted else 'plain ', 'with interceptor:', a.tolist(), ' afterwards:', b.tolist())
print('DEFECT PRESENT' if res[True] != res[False] else 'no defect')
