"""UNCHANGED-TREE DEFECT 10: an identity nn.map_variables(Module, 'params', init=True) cannot
be APPLIED as soon as any collection is mutable (e.g. training a model with BatchNorm or a
counter): "params collection is empty".

With init=True the wrapper runs an init pass whenever the scope has a mutable collection, then
replaces the mapped collections by `repack(scopes)` of that pass - which returns only MUTABLE
collections.  At apply() time 'params' is not mutable, so the mapped target becomes {} and the
real pass finds no parameters.  The untransformed module works.
usage: unchanged_defect_10.py /repo
"""
import sys
sys.path.insert(0, '/verif/seeded'); import compat  # noqa
sys.path.insert(0, sys.argv[1] if len(sys.argv) > 1 else '/repo')
import jax, jax.numpy as jnp
import flax, flax.linen as nn
print('flax from', flax.__file__)


class Inner(nn.Module):
  @nn.compact
  def __call__(self, x):
    calls = self.variable('state', 'calls', lambda: jnp.array(0))
    if self.is_mutable_collection('state') and not self.is_initializing():
      calls.value = calls.value + 1
    return nn.Dense(2)(x)


def make(lifted):
  I = nn.map_variables(Inner, 'params', init=True) if lifted else Inner

  class M(nn.Module):
    @nn.compact
    def __call__(self, x):
      return I(name='inner')(x)
  return M()


x = jnp.ones((1, 3))
v = make(False).init(jax.random.key(0), x)
bad = False
for lifted in (False, True):
  name = 'map_variables(init=True)' if lifted else 'plain                   '
  print(name, 'apply, nothing mutable :', make(lifted).apply(v, x).tolist())
  try:
    y, s = make(lifted).apply(v, x, mutable=['state'])
    print(name, "apply, mutable=['state']:", y.tolist(), int(s['state']['inner']['calls']))
  except Exception as e:  # pylint: disable=broad-except
    bad = True
    print(name, "apply, mutable=['state']: RAISES", type(e).__name__, ':', str(e)[:140])
print('DEFECT PRESENT' if bad else 'no defect')
