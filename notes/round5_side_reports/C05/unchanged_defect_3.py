"""UNCHANGED-TREE DEFECT 3: the module state (auto-name cursor) replayed after a nn.jit
method is keyed by the module fingerprint only (repair 15ca210 is incomplete).

`states_after[module_hash]` in decorator_lift_transform_cached /
module_class_lift_transform_cached is overwritten by every trace.  jax.jit keeps one trace per
(fingerprint, input shapes, static args), so after the method was traced for TWO shapes that
create a different number of auto-named sub-modules, a cache hit on the first shape replays the
cursor of the second: the sub-modules created after the jitted method get other names than in
the un-jitted module -> init returns a different variable tree (and apply() of existing
variables fails / silently uses fresh names).
usage: unchanged_defect_3.py /repo
"""
import sys
sys.path.insert(0, '/verif/seeded'); import compat  # noqa
sys.path.insert(0, sys.argv[1] if len(sys.argv) > 1 else '/repo')
import jax, jax.numpy as jnp
import flax, flax.linen as nn
print('flax from', flax.__file__)


def make(lifted):
  class M(nn.Module):
    def rows(self, x):
      for i in range(x.shape[0]):  # one auto-named Dense per row
        x = x.at[i].set(nn.Dense(3)(x[i]))
      return x
    if lifted:
      rows = nn.jit(rows)

    @nn.compact
    def __call__(self, x):
      y = self.rows(x)
      return nn.Dense(2)(y)  # auto-named AFTER the jitted method
  return M()


k = jax.random.key(0)
x1, x3 = jnp.ones((1, 3)), jnp.ones((3, 3))
out = {}
for lifted in (False, True):
  m = make(lifted)
  a = sorted(m.init(k, x1)['params'])
  b = sorted(m.init(k, x3)['params'])
  c = sorted(m.init(k, x1)['params'])  # same call as the first one
  out[lifted] = (a, b, c)
  print('nn.jit' if lifted else 'plain ', 'init(x1):', a, ' init(x3):', b, ' init(x1) again:', c)
print('DEFECT PRESENT' if out[True] != out[False] else 'no defect')
