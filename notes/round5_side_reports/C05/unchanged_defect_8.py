"""UNCHANGED-TREE DEFECT 8: nn.while_loop raises as soon as a collection named in
`carry_variables` is not mutable in the current apply(), although the loop only READS it.

lift.while_loop puts every collection that matches `carry_variables` into the loop carry, but
repack_fn() returns only the collections that are mutable.  With apply(..., mutable=False)
(evaluation of a model whose training loop updates 'state') the body returns an empty dict
for a non-empty carry and jax rejects the loop ("carry input and carry output must have the
same pytree structure").  The equivalent Python loop runs fine and leaves the collection
untouched - which is what "collections that are not mutable stay untouched" asks for.
usage: unchanged_defect_8.py /repo
"""
import sys
sys.path.insert(0, '/verif/seeded'); import compat  # noqa
sys.path.insert(0, sys.argv[1] if len(sys.argv) > 1 else '/repo')
import jax, jax.numpy as jnp
import flax, flax.linen as nn
print('flax from', flax.__file__)


class W(nn.Module):
  lifted: bool

  @nn.compact
  def __call__(self, x):
    self.variable('state', 'acc', lambda: jnp.array(0.0))

    def cond_fn(m, c):
      return c[0] < 3

    def body_fn(m, c):
      i, x = c
      a = m.get_variable('state', 'acc')
      if m.is_mutable_collection('state'):  # training: count the iterations
        m.put_variable('state', 'acc', a + 1)
      return i + 1, x * 2 + a

    c = (jnp.array(0), x)
    if self.lifted:
      return nn.while_loop(cond_fn, body_fn, self, c, carry_variables='state')
    while cond_fn(self, c):
      c = body_fn(self, c)
    return c


x = jnp.ones((2,))
v = W(False).init(jax.random.key(0), x)
bad = False
for lifted in (False, True):
  name = 'nn.while_loop' if lifted else 'python loop  '
  out, st = W(lifted).apply(v, x, mutable=['state'])
  print(name, "mutable=['state'] ->", out[1], st['state']['acc'])
  try:
    out = W(lifted).apply(v, x)  # nothing mutable: evaluation
    print(name, 'mutable=False     ->', out[1])
  except Exception as e:  # pylint: disable=broad-except
    bad = True
    print(name, 'mutable=False     -> RAISES', type(e).__name__, ':', str(e).splitlines()[0][:150])
print('DEFECT PRESENT' if bad else 'no defect')
