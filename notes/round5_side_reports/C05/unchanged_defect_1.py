"""UNCHANGED-TREE DEFECT 1: nn.cond / nn.switch leave the rng counters of the LAST traced
branch behind, whatever branch is taken.

All branches are traced (true_fun first, false_fun last), each starting from the counters
of the call site (repair 681be0e), but after the conditional the module's counters are
those left by the last traced branch.  If the branches draw a different number of keys and
the branch that runs is not the last one, the next make_rng() of the module
  * differs from the equivalent Python `if` (outputs differ), and worse
  * returns a key that was ALREADY USED inside the taken branch (key reuse).
usage: unchanged_defect_1.py /repo
"""
import sys
sys.path.insert(0, '/verif/seeded'); import compat  # noqa
sys.path.insert(0, sys.argv[1] if len(sys.argv) > 1 else '/repo')
import jax, jax.numpy as jnp
import flax, flax.linen as nn
print('flax from', flax.__file__)


class M(nn.Module):
  lifted: bool

  @nn.compact
  def __call__(self, x, pred):
    def t(m, x):  # two draws
      a, b = m.make_rng('dropout'), m.make_rng('dropout')
      return x + jax.random.uniform(a, x.shape) + jax.random.uniform(b, x.shape), jax.random.key_data(b)

    def f(m, x):  # one draw
      a = m.make_rng('dropout')
      return x - jax.random.uniform(a, x.shape), jax.random.key_data(a)

    if self.lifted:
      y, last_branch_key = nn.cond(pred, t, f, self, x)
    else:
      y, last_branch_key = t(self, x) if pred else f(self, x)
    after = self.make_rng('dropout')  # e.g. the mask of a Dropout layer after the cond
    return y + jax.random.uniform(after, x.shape), last_branch_key, jax.random.key_data(after)


x = jnp.ones((3,))
bad = False
for pred in (True, False):
  rngs = {'dropout': jax.random.key(1)}
  yl, kl, al = M(True).apply({}, x, pred, rngs=rngs)
  yp, kp, ap = M(False).apply({}, x, pred, rngs=rngs)
  same_out = bool(jnp.allclose(yl, yp))
  reused = bool((kl == al).all())
  print(f'pred={pred}: output equals plain `if`: {same_out};  key drawn after nn.cond == key already used in the taken branch: {reused}')
  bad |= (not same_out) or reused
print('DEFECT PRESENT' if bad else 'no defect')
