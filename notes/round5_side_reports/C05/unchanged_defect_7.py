"""UNCHANGED-TREE DEFECT 7: the nn.jit fingerprint compares attribute VALUES with ==, so
attributes that are equal but not interchangeable (2 vs 2.0, 1 vs True, 0.0 vs -0.0) reuse a
stale trace.

_HashableProxy.__eq__ compares the fingerprint tuples; 2 == 2.0 and hash(2) == hash(2.0), so
after Scale(k=2) was traced, Scale(k=2.0) (same class, sibling instance or a later apply) is
answered from the trace of k=2: an int32 input stays int32 although the plain module promotes
it to float32, `x / k`-style code with k=-0.0 returns +inf instead of -inf, and code that
branches on `isinstance(self.k, bool)` takes the wrong branch.
usage: unchanged_defect_7.py /repo
"""
import sys
from typing import Any
sys.path.insert(0, '/verif/seeded'); import compat  # noqa
sys.path.insert(0, sys.argv[1] if len(sys.argv) > 1 else '/repo')
import jax, jax.numpy as jnp
import flax, flax.linen as nn
print('flax from', flax.__file__)


class Scale(nn.Module):
  k: Any = 1

  @nn.compact
  def __call__(self, x):
    if isinstance(self.k, bool):  # a flag: negate or not
      return -x if self.k else x
    return x / self.k if isinstance(self.k, float) else x * self.k


def make(lifted, ks):
  S = nn.jit(Scale) if lifted else Scale

  class M(nn.Module):
    @nn.compact
    def __call__(self, x):
      return [S(k=k)(x) for k in ks]
  return M()


x = jnp.arange(1, 4, dtype=jnp.int32)
bad = False
for ks in ((2, 2.0), (1, True), (0.0, -0.0)):
  plain = make(False, ks).apply({}, x)
  jitted = make(True, ks).apply({}, x)
  show = lambda ys: [(str(y.dtype), y.tolist()) for y in ys]
  same = show(plain) == show(jitted)
  print(f'k in {ks}:\n   plain  {show(plain)}\n   nn.jit {show(jitted)}')
  bad |= not same
print('DEFECT PRESENT' if bad else 'no defect')
