"""UNCHANGED-TREE DEFECT 11: names used by sub-modules created inside a lifted method
(nn.remat / nn.jit / ...) are not reserved in the calling module: a later sub-module with the
SAME explicit name is accepted and silently shares the parameters, whereas the untransformed
code raises NameInUseError.

The lifted method runs on a clone bound to a fresh inner Scope; neither the reservations of the
outer scope nor the children of the outer module are updated when the results are published.
So "wrapping a method does not change what the module computes" fails: plain code -> error,
lifted code -> a model with tied weights and a smaller variable tree.
usage: unchanged_defect_11.py /repo
"""
import sys
sys.path.insert(0, '/verif/seeded'); import compat  # noqa
sys.path.insert(0, sys.argv[1] if len(sys.argv) > 1 else '/repo')
import jax, jax.numpy as jnp
import flax, flax.linen as nn
print('flax from', flax.__file__)


def make(kind):
  class M(nn.Module):
    def helper(self, x):
      return nn.Dense(3, name='proj')(x)
    if kind == 'nn.remat':
      helper = nn.remat(helper)
    if kind == 'nn.jit':
      helper = nn.jit(helper)

    @nn.compact
    def __call__(self, x):
      y = self.helper(x)
      return nn.Dense(3, name='proj')(y)  # same explicit name as inside helper()
  return M()


x = jnp.ones((1, 3))
outcome = {}
for kind in ('plain', 'nn.remat', 'nn.jit'):
  try:
    v = make(kind).init(jax.random.key(0), x)
    outcome[kind] = 'init OK, tree ' + str(jax.tree_util.tree_map(jnp.shape, v))
  except Exception as e:  # pylint: disable=broad-except
    outcome[kind] = 'raises ' + type(e).__name__
  print(f'{kind:9s}: {outcome[kind]}')
bad = outcome['plain'].startswith('raises') and not all(o.startswith('raises') for o in outcome.values())
print('DEFECT PRESENT' if bad else 'no defect')
