"""UNCHANGED-TREE DEFECT 12 (low severity): variables of a mutable collection that the lifted
code never touches do not "stay untouched": every lifted collection is routed through the jax
primitive (lax.cond / remat / jit) and comes back canonicalised - a float64 numpy array is
rounded to float32, a Python int becomes a weakly typed int32 Array (and a Python int that does
not fit int32 raises OverflowError) - while the equivalent Python `if` returns the very objects
it was given.
usage: unchanged_defect_12.py /repo
"""
import sys
sys.path.insert(0, '/verif/seeded'); import compat  # noqa
sys.path.insert(0, sys.argv[1] if len(sys.argv) > 1 else '/repo')
import numpy as np
import jax, jax.numpy as jnp
import flax, flax.linen as nn
print('flax from', flax.__file__)


class T(nn.Module):
  kind: str

  @nn.compact
  def __call__(self, x, pred):
    t = lambda m, x: x + 1
    f = lambda m, x: x - 1
    if self.kind == 'nn.cond':
      return nn.cond(pred, t, f, self, x)
    if self.kind == 'nn.remat':
      return nn.remat(lambda m, x: t(m, x) if pred else f(m, x))(self, x)
    return t(self, x) if pred else f(self, x)


x = jnp.ones((2,))
big = 1.0 + 2.0 ** -40
res = {}
for kind in ('plain', 'nn.cond', 'nn.remat'):
  v = {'state': {'stat': np.array([big]), 'step': 7}}
  _, s = T(kind).apply(v, x, True, mutable=['state'])
  stat, step = s['state']['stat'], s['state']['step']
  res[kind] = (str(np.asarray(stat).dtype), float(np.asarray(stat, np.float64)[0]) == big, type(step).__name__)
  print(f'{kind:8s}: stat dtype {res[kind][0]}, value preserved: {res[kind][1]}, step is a {res[kind][2]}')
try:
  T('nn.cond').apply({'state': {'step': 2 ** 40}}, x, True, mutable=['state'])
  print('nn.cond with an untouched Python int 2**40 in a mutable collection: ok')
except Exception as e:  # pylint: disable=broad-except
  print('nn.cond with an untouched Python int 2**40 in a mutable collection: RAISES', type(e).__name__)
print('DEFECT PRESENT' if any(r != res['plain'] for r in res.values()) else 'no defect')
