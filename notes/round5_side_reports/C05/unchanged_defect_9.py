"""UNCHANGED-TREE DEFECT 9: an identity nn.map_variables(..., init=True) runs the module TWICE
and the side effects of the first ("init") pass leak:

 (a) the rng counters advanced by the init pass are not rewound: everything the second pass
     draws (dropout masks, variables of NON-mapped collections that are initialised from an
     rng - they are discarded after pass one and created again) differs from the plain module;
 (b) with mutable=True the mapped collection is updated by both passes: a call counter kept in
     the mapped collection is incremented by 2 per call (at init AND at every apply).
The init tree / the outputs / the updated collections are not those of the untransformed code.
usage: unchanged_defect_9.py /repo
"""
import sys
sys.path.insert(0, '/verif/seeded'); import compat  # noqa
sys.path.insert(0, sys.argv[1] if len(sys.argv) > 1 else '/repo')
import jax, jax.numpy as jnp
import flax, flax.linen as nn
print('flax from', flax.__file__)


class Inner(nn.Module):
  @nn.compact
  def __call__(self, x):
    calls = self.variable('state', 'calls', lambda: jnp.array(0))
    calls.value = calls.value + 1
    noise = self.variable('consts', 'noise', lambda: jax.random.normal(self.make_rng('params'), (2,)))
    y = nn.Dense(2)(x) + noise.value
    return y + jax.random.uniform(self.make_rng('dropout'), y.shape)


def make(kind):
  I = {
      'plain': Inner,
      "map 'params', init=True": nn.map_variables(Inner, 'params', init=True),
      "map 'state', init=True, mutable=True": nn.map_variables(Inner, 'state', init=True, mutable=True),
  }[kind]

  class M(nn.Module):
    @nn.compact
    def __call__(self, x):
      return I(name='inner')(x)
  return M()


x = jnp.ones((1, 3))
rngs = {'params': jax.random.key(0), 'dropout': jax.random.key(1)}
ref = None
bad = False
for kind in ('plain', "map 'params', init=True", "map 'state', init=True, mutable=True"):
  y, v = make(kind).init_with_output(rngs, x)
  row = dict(y=y.tolist(), calls=int(v['state']['inner']['calls']),
             noise=v['consts']['inner']['noise'].tolist(),
             kernel00=float(v['params']['inner']['Dense_0']['kernel'][0, 0]))
  if kind.startswith("map 'state'"):
    _, s = make(kind).apply(v, x, rngs={'dropout': jax.random.key(1)}, mutable=['state'])
    row['calls after one apply'] = int(s['state']['inner']['calls'])
  print(f'{kind}:\n    {row}')
  if ref is None:
    ref = row
  else:
    bad |= any(row[k] != ref[k] for k in ref)
print('DEFECT PRESENT' if bad else 'no defect')
