"""UNCHANGED-TREE DEFECT 14 (low severity): a PRNG sequence that is excluded by the `rngs=`
lifting filter is not "unavailable" inside the transform - make_rng() silently falls back to the
'params' sequence when that one is lifted, so the module draws OTHER numbers than the plain
code instead of raising.

Scope.make_rng(name) falls back to 'params' when `name` is not in scope.rngs.  Inside
nn.remat(Module, rngs='params') (same for jit / cond / map_variables) the 'dropout' key given to
apply() is hidden, has_rng('dropout') is False and the mask is drawn from the 'params' key:
"random draws identical to the plain code under remat" does not hold for this lifting filter,
and no error tells the user that the sequence was filtered out.
usage: unchanged_defect_14.py /repo
"""
import sys
sys.path.insert(0, '/verif/seeded'); import compat  # noqa
sys.path.insert(0, sys.argv[1] if len(sys.argv) > 1 else '/repo')
import jax, jax.numpy as jnp
import flax, flax.linen as nn
print('flax from', flax.__file__)


class D(nn.Module):
  @nn.compact
  def __call__(self, x):
    return x + jax.random.uniform(self.make_rng('dropout'), x.shape)


x = jnp.zeros((3,))
rngs = {'dropout': jax.random.key(0), 'params': jax.random.key(1)}
plain = D().apply({}, x, rngs=rngs)
lifted = nn.remat(D, rngs='params')().apply({}, x, rngs=rngs)
only_params = D().apply({}, x, rngs={'params': jax.random.key(1)})
print('plain                         :', plain)
print("nn.remat(D, rngs='params')    :", lifted)
print("plain with the params key only:", only_params)
print('DEFECT PRESENT' if not bool(jnp.array_equal(plain, lifted)) else 'no defect')
