"""UNCHANGED-TREE DEFECT 4: the nn.jit fingerprint skips the `name` field (and the scope
path), so an instance that differs from an earlier one only by its name reuses the earlier
trace - although `self.name` / `self.path` are legal inputs of the computation.

_fingerprint_recursive: `if field.name not in ('parent', 'name')`.  A module whose body uses
self.name (sow under its own name, name dependent constants, self.path for logging keys...)
computes the result of its SIBLING when wrapped in nn.jit: stale trace after an attribute
(name) changed.
usage: unchanged_defect_4.py /repo
"""
import sys
sys.path.insert(0, '/verif/seeded'); import compat  # noqa
sys.path.insert(0, sys.argv[1] if len(sys.argv) > 1 else '/repo')
import jax, jax.numpy as jnp
import flax, flax.linen as nn
print('flax from', flax.__file__)


class Tag(nn.Module):
  @nn.compact
  def __call__(self, x):
    self.sow('intermediates', 'seen_by_' + self.name, x)
    return x * len(self.name)


def make(lifted):
  T = nn.jit(Tag) if lifted else Tag

  class M(nn.Module):
    @nn.compact
    def __call__(self, x):
      return T(name='a')(x), T(name='bbb')(x)
  return M()


x = jnp.ones((2,))
res = {}
for lifted in (False, True):
  out, st = make(lifted).apply({}, x, mutable=['intermediates'])
  res[lifted] = (jax.tree_util.tree_map(lambda v: v.tolist(), out), jax.tree_util.tree_map(jnp.shape, st))
  print('nn.jit' if lifted else 'plain ', res[lifted])
print('DEFECT PRESENT' if res[True] != res[False] else 'no defect')
