"""UNCHANGED-TREE DEFECT 5: lift.jit keeps its rng-counter deltas in a threading.local cache
while jax's jit cache is process wide.

When a jitted method was traced in one thread and the same call is made later from ANOTHER
thread (no concurrency needed: the first thread may long be idle, e.g. an evaluation worker
started after training), jax answers from its cache, the Python body does not run, the
thread-local `_SideEffectCache` is empty -> a delta of ZERO is recorded and replayed for ever
in that thread.  The rng counters of the module are not advanced by the jitted method, so keys
drawn after it differ from those of the first thread (same call site, same rngs -> other
numbers; "a deterministic function of the call site" is violated).
usage: unchanged_defect_5.py /repo
"""
import sys, threading
sys.path.insert(0, '/verif/seeded'); import compat  # noqa
sys.path.insert(0, sys.argv[1] if len(sys.argv) > 1 else '/repo')
import jax, jax.numpy as jnp
import flax, flax.linen as nn
print('flax from', flax.__file__)


class M(nn.Module):
  @nn.jit
  def noisy(self, x):
    a, b = self.make_rng('dropout'), self.make_rng('dropout')
    return x + jax.random.uniform(a, x.shape) + jax.random.uniform(b, x.shape)

  @nn.compact
  def __call__(self, x):
    y = self.noisy(x)
    return y + jax.random.uniform(self.make_rng('dropout'), x.shape)  # drawn after the jitted method


x = jnp.ones((3,))
rngs = {'dropout': jax.random.key(1)}
m = M()
main1 = m.apply({}, x, rngs=rngs)
box = []
t = threading.Thread(target=lambda: box.append(m.apply({}, x, rngs=rngs)))
t.start(); t.join()
main2 = m.apply({}, x, rngs=rngs)
print('main thread        :', main1)
print('second thread      :', box[0])
print('main thread again  :', main2)
same = bool(jnp.allclose(main1, box[0]))
print('DEFECT PRESENT' if not same else 'no defect')
