"""UNCHANGED-TREE DEFECT 6: the `capture_intermediates` filter of apply() is not part of the
nn.jit cache key: a jitted sub-module keeps capturing what the filter of an EARLIER apply()
selected.

The filter lives in a module-level context stack (flax.linen.module._context.capture_stack),
not in the scope / module fingerprint.  After apply(..., capture_intermediates=True) traced the
jitted sub-module, an apply() with another filter function (e.g. "only nn.Dense outputs" or
"nothing") hits the jit cache and returns the collections of the first filter: the set of
updated mutable collections differs from the un-jitted model.
usage: unchanged_defect_6.py /repo
"""
import sys
sys.path.insert(0, '/verif/seeded'); import compat  # noqa
sys.path.insert(0, sys.argv[1] if len(sys.argv) > 1 else '/repo')
import jax, jax.numpy as jnp
import flax, flax.linen as nn
print('flax from', flax.__file__)


class Inner(nn.Module):
  @nn.compact
  def __call__(self, x):
    return nn.Dense(2)(nn.Dense(3)(x))


def make(lifted):
  I = nn.jit(Inner) if lifted else Inner

  class M(nn.Module):
    @nn.compact
    def __call__(self, x):
      return I(name='inner')(x)
  return M()


x = jnp.ones((1, 3))
params = {'params': make(False).init(jax.random.key(0), x)['params']}
only_dense = lambda mdl, name: isinstance(mdl, nn.Dense)
nothing = lambda mdl, name: False
shapes = lambda t: jax.tree_util.tree_map(jnp.shape, t)
res = {}
for lifted in (False, True):
  m = make(lifted)
  _, s_all = m.apply(params, x, mutable=['intermediates'], capture_intermediates=True)
  _, s_dense = m.apply(params, x, mutable=['intermediates'], capture_intermediates=only_dense)
  _, s_none = m.apply(params, x, mutable=['intermediates'], capture_intermediates=nothing)
  res[lifted] = (shapes(s_all), shapes(s_dense), shapes(s_none))
  print('nn.jit' if lifted else 'plain ')
  print('   filter=True      :', res[lifted][0])
  print('   filter=only Dense:', res[lifted][1])
  print('   filter=nothing   :', res[lifted][2])
print('DEFECT PRESENT' if res[True] != res[False] else 'no defect')
