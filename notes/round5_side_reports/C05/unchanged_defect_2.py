"""UNCHANGED-TREE DEFECT 2: lift.jit replays a rng-counter delta recorded per module
fingerprint, although jax.jit retraces (and the body draws another number of keys) when a
static argument / an input shape changes.

lift.jit._restore_rng_counters caches "how far did the body advance the rng counters" under
(mutable, module fingerprint) only.  A second call with the same fingerprint but another
static argument (or input shape) is RETRACED by jax, its Python body advances the counters
correctly - and then the counters are overwritten with old + (delta of the FIRST call).
Result: the keys drawn after the jitted method depend on which calls happened earlier in the
process ("a deterministic function of the call site" is violated: the same apply() gives
different results in a fresh process and in a warm one).
usage: unchanged_defect_2.py /repo
"""
import sys
sys.path.insert(0, '/verif/seeded'); import compat  # noqa
sys.path.insert(0, sys.argv[1] if len(sys.argv) > 1 else '/repo')
import jax, jax.numpy as jnp
import flax, flax.linen as nn
print('flax from', flax.__file__)


def make():
  class M(nn.Module):
    def noisy(self, x, n):
      for _ in range(n):  # n draws
        x = x + jax.random.uniform(self.make_rng('dropout'), x.shape)
      return x
    noisy = nn.jit(noisy, static_argnames=('n',))

    @nn.compact
    def __call__(self, x, n):
      y = self.noisy(x, n=n)
      return y + jax.random.uniform(self.make_rng('dropout'), x.shape)  # draw after the jitted method
  return M()


x = jnp.ones((3,))
rngs = {'dropout': jax.random.key(1)}
fresh = make().apply({}, x, 3, rngs=rngs)        # class used for the first time
m = make()
m.apply({}, x, 1, rngs=rngs)                     # history: an earlier call with n=1
warm = m.apply({}, x, 3, rngs=rngs)              # the very same call as `fresh`
print('apply(n=3) fresh :', fresh)
print('apply(n=3) after an apply(n=1):', warm)
same = bool(jnp.allclose(fresh, warm))
# same thing with an input-shape dependent number of draws and no static argument
def make2():
  class M2(nn.Module):
    @nn.jit
    def noisy(self, x):
      for i in range(x.shape[0]):
        x = x.at[i].add(jax.random.uniform(self.make_rng('dropout'), x.shape[1:]))
      return x
    @nn.compact
    def __call__(self, x):
      y = self.noisy(x)
      return y + jax.random.uniform(self.make_rng('dropout'), x.shape)
  return M2()
x3 = jnp.ones((3, 2))
fresh2 = make2().apply({}, x3, rngs=rngs)
m2 = make2(); m2.apply({}, jnp.ones((1, 2)), rngs=rngs)
warm2 = m2.apply({}, x3, rngs=rngs)
same2 = bool(jnp.allclose(fresh2, warm2))
print('static-arg variant: same result with and without history:', same)
print('shape variant     : same result with and without history:', same2)
print('DEFECT PRESENT' if not (same and same2) else 'no defect')
