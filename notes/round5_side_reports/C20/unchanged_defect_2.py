"""UNCHANGED-TREE DEFECT 2 (common_utils.onehot, legal on_value/off_value crash).

Clause: "onehot [is] the stated reshape" -- documented signature
onehot(labels, num_classes, on_value=1.0, off_value=0.0).

onehot builds the result with
  lax.select(x, jnp.full(x.shape, on_value), jnp.full(x.shape, off_value))
lax.select does NOT promote dtypes, so any call in which on_value and off_value
are not of the same Python/NumPy scalar kind raises TypeError instead of
returning the one-hot array, e.g. on_value=0.9, off_value=0 (label smoothing with
an integer zero), on_value=1, off_value=0.0, or a bfloat16/float16 scalar for one
of the two and a Python float for the other.

usage: unchanged_defect_2.py <flax root>     (exit 1 + description if the defect is present)
"""
import sys
sys.path.insert(0, '/verif/seeded'); import compat  # noqa
sys.path.insert(0, sys.argv[1] if len(sys.argv) > 1 else '/repo')
import numpy as np
import jax.numpy as jnp
from flax.training import common_utils

labels = jnp.array([0, 2, 1])
cases = [
  ('on_value=0.9, off_value=0', 0.9, 0),
  ('on_value=1, off_value=0.0', 1, 0.0),
  ('on_value=True, off_value=0.0', True, 0.0),
  ('on_value=jnp.bfloat16(1), off_value=0.0', jnp.bfloat16(1), 0.0),
  ('on_value=np.float16(1), off_value=0.0', np.float16(1), 0.0),
]
bad = False
for name, on, off in cases:
  want = np.where(np.eye(3, dtype=bool)[np.asarray(labels)], np.float32(on), np.float32(off))
  try:
    got = np.asarray(common_utils.onehot(labels, 3, on_value=on, off_value=off))
    if got.shape != want.shape or not np.allclose(got, want):
      bad = True
      print(f'DEFECT {name}: wrong values {got.tolist()}')
  except Exception as e:  # pylint: disable=broad-except
    bad = True
    print(f'DEFECT {name}: raised {type(e).__name__}: {str(e)[:110]}')
if bad:
  print('onehot crashes when on_value and off_value have different scalar types')
  sys.exit(1)
print('no defect observed')
