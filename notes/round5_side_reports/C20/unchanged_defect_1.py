"""UNCHANGED-TREE DEFECT 1 (prefetch_to_device, error ordering).

Clause: "an exception raised by the source at any position reaches the consumer
AFTER the items that preceded it".

flax.jax_utils.prefetch_to_device only catches `Exception` while (re)filling its
buffer (`except Exception as e: error = e`).  A source that fails with a
BaseException that is not an Exception (asyncio.CancelledError-like, SystemExit,
KeyboardInterrupt, or any user class deriving from BaseException) makes the
error escape from inside enqueue(): the items that are already sitting in the
prefetch buffer are dropped and the consumer sees the error BEFORE items that the
source had produced successfully.  PrefetchIterator got the analogous repair
(067d4c7, "caught only Exception"); prefetch_to_device did not.

usage: unchanged_defect_1.py <flax root>     (exit 1 + description if the defect is present)
"""
import sys
sys.path.insert(0, '/verif/seeded'); import compat  # noqa
sys.path.insert(0, sys.argv[1] if len(sys.argv) > 1 else '/repo')
import numpy as np
from flax import jax_utils


class Cancelled(BaseException):
  pass


def run(size, n_good, exc_type):
  def source():
    for i in range(n_good):
      yield np.full((1, 2), i, np.float32)
    raise exc_type('source failed at position %d' % n_good)

  seen = []
  try:
    for item in jax_utils.prefetch_to_device(source(), size):
      seen.append(int(np.asarray(item)[0, 0]))
  except BaseException as e:  # pylint: disable=broad-except
    seen.append(type(e).__name__)
  return seen


bad = False
for exc_type in (ValueError, Cancelled):
  for size in (1, 2, 3):
    for n_good in (0, 1, 2, 3, 4):
      got = run(size, n_good, exc_type)
      want = list(range(n_good)) + [exc_type.__name__]
      if got != want:
        bad = True
        print(f'DEFECT size={size} source=[{n_good} items, then {exc_type.__name__}]: '
              f'consumer saw {got}, expected {want}')
if bad:
  print('prefetch_to_device loses the buffered items that precede a non-Exception '
        'BaseException raised by the source')
  sys.exit(1)
print('no defect observed')
