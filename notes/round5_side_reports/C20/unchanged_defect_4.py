"""UNCHANGED-TREE DEFECT 4 (degenerate buffer sizes; quantifier "every ... buffer size").

  * PrefetchIterator(src, buffer_size=0): delivers the first item and then the
    consumer blocks forever.  The producer waits for len(buffer) < 0, which can
    never become true, and nobody ever sets _active = False.  (Same for any
    buffer_size <= 0.)  No error is raised at construction.
  * jax_utils.prefetch_to_device(src, 0): silently yields NOTHING (enqueue(0),
    empty queue, loop ends) -- every item of the source is lost and no error is
    raised; the source is not even touched.
A buffer size of 0 is not rejected and not documented as illegal; a reasonable
reading is "no read-ahead", i.e. items are still delivered one by one.

usage: unchanged_defect_4.py <flax root>     (exit 1 + description if the defect is present)
"""
import sys
sys.path.insert(0, '/verif/seeded'); import compat  # noqa
sys.path.insert(0, sys.argv[1] if len(sys.argv) > 1 else '/repo')
import threading
import warnings
warnings.simplefilter('ignore')
import numpy as np
from flax import jax_utils
from flax.training.prefetch_iterator import PrefetchIterator


def step(it, timeout=3.0):
  box = []
  def run():
    try:
      box.append(next(it))
    except StopIteration:
      box.append('StopIteration')
    except BaseException as e:  # pylint: disable=broad-except
      box.append(type(e).__name__)
  t = threading.Thread(target=run, daemon=True)
  t.start(); t.join(timeout)
  return box[0] if box else 'HANG'


bad = False
it = PrefetchIterator(iter(range(3)), buffer_size=0)
hist = []
for _ in range(4):
  hist.append(step(it))
  if hist[-1] == 'HANG':
    break
print('PrefetchIterator(range(3), buffer_size=0):', hist)
if hist != [0, 1, 2, 'StopIteration']:
  bad = True
  print('DEFECT: expected [0, 1, 2, StopIteration] (or a ValueError at construction)')

got = [int(np.asarray(x)[0, 0]) for x in jax_utils.prefetch_to_device(
  iter([np.full((1, 1), i) for i in range(3)]), 0)]
print('prefetch_to_device(3 items, size=0):', got)
if got != [0, 1, 2]:
  bad = True
  print('DEFECT: expected [0, 1, 2] (or a ValueError); all items silently dropped')
sys.exit(1 if bad else 0)
