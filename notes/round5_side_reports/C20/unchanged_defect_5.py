"""UNCHANGED-TREE observations 5 (lower confidence: argument-form papercuts).

Each of these is a natural way to spell a legal call; none is rejected with a
clear message, and (b) silently changes behaviour.

 (a) scan_in_dim(axis=[0, 1]) / scan_in_dim(unroll=[1, 2]): a list instead of a
     tuple -> TypeError "can only concatenate list (not tuple) to list" from
     `axis + tuple(...)` / `(1,) * len_diff + unroll`.  A numpy array of axes is
     even worse: `axis + tuple(...)` becomes an elementwise add and the
     permutation is garbage ("axis 3 is out of bounds").
 (b) pad_shard_unpad(static_argnames='mask'): a str instead of a tuple is not
     rejected; `k not in static_argnames` then does SUBSTRING matching, so the
     unrelated kwargs 'a', 'm', 'as', 'sk' ... are silently treated as static
     (forwarded un-padded / un-sharded).  jax.jit accepts a bare str here.
 (c) scan_in_dim(axis=()): the loop over zero axes (body applied once) is not
     supported -> IndexError "tuple index out of range" (unroll[0]).
 (d) pad_shard_unpad with a batch of new-style typed PRNG keys
     (jax.random.split(jax.random.key(0), b)) works when b is divisible by the
     device count and raises TypeError "Cannot interpret 'key<fry>' as a data
     type" (np.zeros with a key dtype) exactly when padding is needed, i.e. the
     "batch size not divisible by device count" half of the quantifier fails for
     this leaf type.  Needs >= 2 devices or min_device_batch.

usage: unchanged_defect_5.py <flax root>
"""
import os, sys
os.environ.setdefault('XLA_FLAGS', '--xla_force_host_platform_device_count=2')
sys.path.insert(0, '/verif/seeded'); import compat  # noqa
sys.path.insert(0, sys.argv[1] if len(sys.argv) > 1 else '/repo')
import numpy as np
import jax
import jax.numpy as jnp
from flax import jax_utils


def t(name, f):
  try:
    print(name, '->', f())
  except Exception as e:  # pylint: disable=broad-except
    print(name, '-> RAISED', type(e).__name__ + ':', str(e)[:120])


body = lambda c, x: (c + x.sum(), x * 2)
xs = jnp.arange(24.0).reshape(2, 3, 4)
t('(a) scan_in_dim axis=[0, 1]', lambda: jax_utils.scan_in_dim(body, 0.0, xs, axis=[0, 1])[1].shape)
t('(a) scan_in_dim axis=(0, 1), unroll=[1, 2]', lambda: jax_utils.scan_in_dim(body, 0.0, xs, axis=(0, 1), unroll=[1, 2])[1].shape)
t('(a) scan_in_dim axis=np.array([0, 1])', lambda: jax_utils.scan_in_dim(body, 0.0, xs, axis=np.array([0, 1]))[1].shape)

seen = {}
def f(params, x, **kw):
  seen.update({k: np.shape(v) for k, v in kw.items()})
  return x
w = jax_utils.pad_shard_unpad(f, static_argnames='mask')
w(None, np.arange(3.0), a=np.arange(3.0), weights=np.arange(3.0))
d = jax.local_device_count()
print(f"(b) static_argnames='mask', kwargs a=(3,), weights=(3,) reached the wrapped fn as {seen} "
      f"(with {d} devices both should be (d, ceil(3/d)); 'a' was passed through unpadded because 'a' in 'mask')")

t('(c) scan_in_dim axis=()', lambda: jax_utils.scan_in_dim(body, 0.0, xs, axis=()))

g = jax_utils.pad_shard_unpad(lambda k, x: x * 2, static_argnums=())
t('(d) typed keys, b=4', lambda: g(jax.random.split(jax.random.key(0), 4), np.arange(4.0), min_device_batch=None))
t('(d) typed keys, b=3 (needs padding)', lambda: g(jax.random.split(jax.random.key(0), 3), np.arange(3.0), min_device_batch=4))
