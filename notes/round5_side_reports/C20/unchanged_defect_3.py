"""UNCHANGED-TREE DEFECT 3 (PrefetchIterator, "... and then stop").

After PrefetchIterator has raised StopIteration it can deliver another item.
Deterministic schedule (buffer_size=1):
  1. consumer takes item 0; the producer thread is now inside next(source) for
     item 1 (the source is slow: it blocks on an Event),
  2. consumer calls close()  -> _active = False,
  3. consumer calls next()   -> buffer empty, not active -> StopIteration,
  4. the source returns item 1; the producer appends it to the buffer and exits,
  5. consumer calls next()   -> returns item 1 (the iterator "un-stopped"),
  6. consumer calls next()   -> StopIteration again.
So the consumer-visible history is [0, StopIteration, 1, StopIteration]: an item
is delivered after the end was signalled, which breaks the iterator protocol and
the "deliver the items in order, each once, and then stop" clause for the
schedule "close() while a fetch is in flight".  (Either the in-flight item must
be delivered before StopIteration or it must never be delivered.)

usage: unchanged_defect_3.py <flax root>     (exit 1 + description if the defect is present)
"""
import sys
sys.path.insert(0, '/verif/seeded'); import compat  # noqa
sys.path.insert(0, sys.argv[1] if len(sys.argv) > 1 else '/repo')
import threading
import time
import warnings
warnings.simplefilter('ignore')
from flax.training.prefetch_iterator import PrefetchIterator

gate, entered = threading.Event(), threading.Event()


def source():
  yield 0
  entered.set()
  gate.wait(10)  # slow fetch of item 1
  yield 1
  yield 2


def step(it, timeout=5.0):
  box = []
  def run():
    try:
      box.append(next(it))
    except StopIteration:
      box.append('StopIteration')
    except BaseException as e:  # pylint: disable=broad-except
      box.append(type(e).__name__)
  t = threading.Thread(target=run, daemon=True)
  t.start(); t.join(timeout)
  return box[0] if box else 'HANG'


it = PrefetchIterator(source(), buffer_size=1)
history = [step(it)]
assert entered.wait(5)
it.close()
history.append(step(it))
gate.set()
time.sleep(0.5)  # let the producer finish the in-flight fetch
history.append(step(it))
history.append(step(it))
print('consumer history:', history)
stopped_at = history.index('StopIteration') if 'StopIteration' in history else len(history)
after = [h for h in history[stopped_at:] if h != 'StopIteration']
if after:
  print(f'DEFECT: item(s) {after} delivered AFTER StopIteration had been raised')
  sys.exit(1)
print('no defect observed')
