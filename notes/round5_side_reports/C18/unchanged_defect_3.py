"""UNCHANGED TREE. Linen reserves variable names per collection, so one module may have a
parameter `x` and a cache variable `x`. bridge.variables.linen_vars_to_nnx_attrs keys the NNX
attributes by name only, so one of the two is silently dropped in ToNNX.lazy_init (here the cache
entry) and the wrapper cannot be called."""
import sys
sys.path.insert(0, '/verif/seeded'); import compat
sys.path.insert(0, sys.argv[1] if len(sys.argv) > 1 else "/repo")
import flax, jax, jax.numpy as jnp, numpy as np
from flax import linen as nn, nnx
from flax.nnx import bridge
print("flax from", flax.__file__)

class M(nn.Module):
  @nn.compact
  def __call__(self, x):
    w = self.param('x', nn.initializers.ones, (4,))
    c = self.variable('cache', 'x', lambda: jnp.full((4,), 10.0))
    return x * w + c.value

x = jnp.ones((1, 4))
variables = M().init(jax.random.key(0), x)
print('linen variables:', jax.tree.map(jnp.shape, variables), '->', M().apply(variables, x))
model = bridge.ToNNX(M(), rngs=nnx.Rngs(0)).lazy_init(x)
held = {k: type(v).__name__ for k, v in vars(model).items() if k not in ('module', 'rngs', '_object__state')}
print('variables held by the wrapper:', held)
try:
  print('ToNNX call:', model(x))
except Exception as e:
  print('DEFECT: one of the two variables called "x" was dropped; call raised', type(e).__name__, ':', str(e)[:140])
  sys.exit(1)
