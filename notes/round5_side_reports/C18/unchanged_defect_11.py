"""UNCHANGED TREE (minor). Two more ToNNX call histories that raise although each step is legal NNX / bridge usage:
 a) setting any plain (static) attribute on a ToNNX wrapper, as one may on every nnx.Module, makes
    all later calls raise ValueError("Cannot infer collection name from value") because every
    attribute except module/rngs is assumed to be a converted Linen variable;
 b) lazy_init(x, mutable=True): ToNNX forwards `mutable` to init_with_output and then unpacks the
    plain output as (out, updates): IndexError / ValueError depending on the batch size;
 c) model(x, capture_intermediates=True) (a documented Linen apply kwarg that implies mutable
    "intermediates"): ToNNX only looks at kwargs["mutable"], so it returns the raw (out, state) tuple
    and does not store the intermediates in its own state."""
import sys
sys.path.insert(0, '/verif/seeded'); import compat
sys.path.insert(0, sys.argv[1] if len(sys.argv) > 1 else "/repo")
import flax, jax, jax.numpy as jnp, numpy as np
from flax import linen as nn, nnx
from flax.nnx import bridge
print("flax from", flax.__file__)
bad = 0
x = jnp.ones((2, 4))
m = bridge.ToNNX(nn.Dense(3), rngs=nnx.Rngs(0)).lazy_init(x)
m.note = 'trained on v1'
try:
  m(x); print('a) ok')
except Exception as e:
  bad += 1; print('a) DEFECT:', type(e).__name__, str(e)[:100])
try:
  bridge.ToNNX(nn.BatchNorm(use_running_average=False), rngs=nnx.Rngs(0)).lazy_init(x, mutable=True)
  print('b) ok')
except Exception as e:
  bad += 1; print('b) DEFECT:', type(e).__name__, str(e)[:100])
m = bridge.ToNNX(nn.Dense(3), rngs=nnx.Rngs(0)).lazy_init(x)
out = m(x, capture_intermediates=True)
if isinstance(out, tuple):
  bad += 1; print('c) DEFECT: call returned a', type(out).__name__, 'of', jax.tree.map(jnp.shape, out),
                  '; wrapper attributes:', [k for k in vars(m) if k not in ('module', 'rngs', '_object__state')])
sys.exit(1 if bad else 0)
