"""UNCHANGED TREE. A Linen variable boxed in a user-defined flax.core.meta.AxisMetadata class
(the documented extension point; no to_nnx_metadata/from_nnx_metadata methods) converts into an
NNX Variable in lazy_init, but converting it back fails: bridge.variables.to_linen_var passes the
bookkeeping key `linen_meta_type` on to the box constructor. So ToNNX.lazy_init works and every
later call raises TypeError; metadata of custom boxes does not round-trip."""
import sys
sys.path.insert(0, '/verif/seeded'); import compat
sys.path.insert(0, sys.argv[1] if len(sys.argv) > 1 else "/repo")
import flax, jax, jax.numpy as jnp, numpy as np
from flax import linen as nn, nnx
from flax.nnx import bridge
print("flax from", flax.__file__)
from flax import struct
from flax.core import meta

class Tagged(struct.PyTreeNode, meta.AxisMetadata):
  value: object
  tag: str = struct.field(pytree_node=False, default='')
  def unbox(self): return self.value
  def replace_boxed(self, val): return self.replace(value=val)
  def add_axis(self, index, params): return self
  def remove_axis(self, index, params): return self

class M(nn.Module):
  @nn.compact
  def __call__(self, x):
    w = self.param('w', lambda key, shape: Tagged(jnp.ones(shape), tag='frozen'), (4,))
    return x * w

x = jnp.ones((1, 4))
variables = M().init(jax.random.key(0), x)
print('linen apply:', M().apply(variables, x))
model = bridge.ToNNX(M(), rngs=nnx.Rngs(0)).lazy_init(x)
print('nnx variable metadata:', {k: v for k, v in model.w.get_metadata().items()})
try:
  print('ToNNX call:', model(x))
except TypeError as e:
  print('DEFECT: ToNNX call raised TypeError:', e)
  sys.exit(1)
