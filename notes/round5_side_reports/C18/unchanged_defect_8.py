"""UNCHANGED TREE, ENVIRONMENT dependent. With the documented flax config flag
flax_return_frozendict=True (env FLAX_RETURN_FROZENDICT=true) Linen returns FrozenDicts.
 * ToNNX.lazy_init dies with a bare AssertionError (linen_vars_to_nnx_attrs asserts `dict`),
 * ToLinen.apply(..., mutable=...) on the variables that its own init returned dies with
   ValueError("Expected a dictionary when `_copy=False`...") from nnx.merge_state.
Both work with the flag off."""
import sys
sys.path.insert(0, '/verif/seeded'); import compat
sys.path.insert(0, sys.argv[1] if len(sys.argv) > 1 else "/repo")
import flax, jax, jax.numpy as jnp, numpy as np
from flax import linen as nn, nnx
from flax.nnx import bridge
print("flax from", flax.__file__)
flax.config.update('flax_return_frozendict', True)
bad = 0
x = jax.random.normal(jax.random.key(0), (3, 4))
try:
  m = bridge.ToNNX(nn.BatchNorm(use_running_average=False), rngs=nnx.Rngs(0)).lazy_init(x)
  m(x, mutable=['batch_stats'])
  print('ToNNX ok')
except BaseException as e:
  bad += 1
  print('DEFECT: ToNNX.lazy_init raised', type(e).__name__, str(e)[:100])

class N(nnx.Module):
  def __init__(self, rngs):
    self.bn = nnx.BatchNorm(4, use_running_average=False, rngs=rngs)
  def __call__(self, x):
    return self.bn(x)
model = bridge.to_linen(N)
variables = model.init(jax.random.key(0), x)
try:
  model.apply(variables, x, mutable=['batch_stats'])
  print('ToLinen ok')
except BaseException as e:
  bad += 1
  print('DEFECT: ToLinen.apply on', type(variables).__name__, 'variables raised', type(e).__name__, str(e)[:100])
sys.exit(1 if bad else 0)
