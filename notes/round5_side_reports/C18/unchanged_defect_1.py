"""UNCHANGED TREE. ToNNX keeps its own bookkeeping in attributes called `module` and `rngs`,
in the same namespace as the converted Linen variables. A Linen module that has a sub-module
(or variable) called `module` or `rngs` -- both perfectly legal Linen names -- overwrites them
in lazy_init, so names are not preserved and the first real call crashes.
(flax/nnx/bridge/wrappers.py ToNNX.__call__: `setattr(self, attr_name, value)` / the
`k not in ["module", "rngs", "_object__state"]` filter.)"""
import sys
sys.path.insert(0, '/verif/seeded'); import compat
sys.path.insert(0, sys.argv[1] if len(sys.argv) > 1 else "/repo")
import flax, jax, jax.numpy as jnp, numpy as np
from flax import linen as nn, nnx
from flax.nnx import bridge
print("flax from", flax.__file__)

class Wrapper(nn.Module):          # e.g. a residual / pre-norm wrapper around "module"
  def setup(self):
    self.module = nn.Dense(3)
  def __call__(self, x):
    return self.module(x)

class Scaled(nn.Module):
  @nn.compact
  def __call__(self, x):
    return x * self.param('rngs', nn.initializers.ones, (4,))

x = jnp.ones((1, 4))
bad = 0
for lin in (Wrapper(), Scaled()):
  variables = lin.init(jax.random.key(0), x)
  want = lin.apply(variables, x)           # Linen itself is fine with these names
  model = bridge.ToNNX(lin, rngs=nnx.Rngs(0)).lazy_init(x)
  print(type(lin).__name__, ': wrapper.module is now', type(model.module).__name__,
        ', wrapper.rngs is now', type(model.rngs).__name__)
  try:
    model(x)
    print('  call ok')
  except Exception as e:
    bad += 1
    print('  DEFECT: call after lazy_init raised', type(e).__name__, ':', str(e)[:120])
sys.exit(1 if bad else 0)
