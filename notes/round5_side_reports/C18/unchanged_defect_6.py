"""UNCHANGED TREE. ToNNX renames the NNX `default` RNG stream to Linen`s `params` stream only in the
lazy_init branch. A Linen module with Dropout therefore initialises fine with nnx.Rngs(0) (dropout
falls back to `params`), but every later call raises InvalidRngError because the call branch hands
Linen a stream called `default`, which Linen never looks at.
Mirror image on the other side: ToLinen builds nnx.Rngs(**linen keys) without a `default` stream, so the
most common Linen call `model.init(key, x)` (a single key = only `params`) raises KeyError for any wrapped NNX
module that contains nnx.Dropout, whereas a Linen module with Dropout accepts it (falls back to `params`)."""
import sys
sys.path.insert(0, '/verif/seeded'); import compat
sys.path.insert(0, sys.argv[1] if len(sys.argv) > 1 else "/repo")
import flax, jax, jax.numpy as jnp, numpy as np
from flax import linen as nn, nnx
from flax.nnx import bridge
print("flax from", flax.__file__)

class M(nn.Module):
  @nn.compact
  def __call__(self, x):
    return nn.Dropout(0.5, deterministic=False)(nn.Dense(3)(x))

x = jnp.ones((1, 4))
model = bridge.ToNNX(M(), rngs=nnx.Rngs(0)).lazy_init(x)
print('lazy_init ok, kernel', model.Dense_0['kernel'].value.shape)
bad = 0
try:
  print('call:', model(x))
except Exception as e:
  bad += 1
  print('DEFECT: ToNNX call after a successful lazy_init raised', type(e).__name__, ':', str(e)[:100])

class N(nnx.Module):
  def __init__(self, rngs):
    self.lin = nnx.Linear(4, 3, rngs=rngs)
    self.drop = nnx.Dropout(0.5, rngs=rngs)
  def __call__(self, x):
    return self.drop(self.lin(x))
print('linen module with dropout, init(key, x):', jax.tree.map(jnp.shape, M().init(jax.random.key(0), x)))
try:
  bridge.to_linen(N).init(jax.random.key(0), x)
  print('ToLinen init(key, x) ok')
except Exception as e:
  bad += 1
  print('DEFECT: ToLinen init(key, x) raised', type(e).__name__, ':', str(e)[:100])
sys.exit(1 if bad else 0)
