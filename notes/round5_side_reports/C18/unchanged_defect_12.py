"""UNCHANGED TREE. A Linen layer nested in a bridge.Module parent: parent.apply(vars, x, mutable=["batch_stats"])
returns EVERY collection (also the immutable `params`) as "updates", where the same layer under a Linen parent returns
only `batch_stats`. bridge.Module.apply ignores `mutable` when it builds the returned variables
(flax/nnx/bridge/module.py: `_variables = module._get_variables()`); code written for Linen such as
`variables = {**variables, **updates}` is fine, but `state.replace(batch_stats=updates["batch_stats"])`-style code that
asserts on the keys, or jit out_shardings/donation built for the updates, sees an extra copy of all parameters."""
import sys
sys.path.insert(0, '/verif/seeded'); import compat
sys.path.insert(0, sys.argv[1] if len(sys.argv) > 1 else "/repo")
import flax, jax, jax.numpy as jnp, numpy as np
from flax import linen as nn, nnx
from flax.nnx import bridge
print("flax from", flax.__file__)

class LinenTop(nn.Module):
  @nn.compact
  def __call__(self, x):
    return nn.BatchNorm(use_running_average=False, name='bn')(x)

class BridgeTop(bridge.Module):
  @bridge.compact
  def __call__(self, x):
    return bridge.linen_in_bridge_mdl(nn.BatchNorm(use_running_average=False), name='bn')(x)

x = jax.random.normal(jax.random.key(0), (3, 4))
lv = LinenTop().init(jax.random.key(0), x)
_, lupd = LinenTop().apply(lv, x, mutable=['batch_stats'])
bvars = BridgeTop().init(0, x)
_, bupd = BridgeTop().apply(bvars, x, mutable=['batch_stats'])
print('linen parent  updates:', sorted(lupd))
print('bridge parent updates:', sorted(bupd))
if sorted(lupd) != sorted(bupd):
  print('DEFECT: bridge.Module.apply returned immutable collections among the mutable updates')
  sys.exit(1)
