"""UNCHANGED TREE. A Linen variable whose value is a NamedTuple (RNN carries, optimizer-like state)
becomes a NamedTuple of nnx Variables in lazy_init, but nnx_attrs_to_linen_vars rebuilds sequences
with `type(v)(vals)`, which is wrong for namedtuples: every call after lazy_init raises TypeError.
(Plain tuples were repaired in 62daa22; namedtuples were not.)"""
import sys
sys.path.insert(0, '/verif/seeded'); import compat
sys.path.insert(0, sys.argv[1] if len(sys.argv) > 1 else "/repo")
import flax, jax, jax.numpy as jnp, numpy as np
from flax import linen as nn, nnx
from flax.nnx import bridge
print("flax from", flax.__file__)
import collections
Carry = collections.namedtuple('Carry', 'c h')

class M(nn.Module):
  @nn.compact
  def __call__(self, x):
    v = self.variable('memory', 'carry', lambda: Carry(jnp.zeros(2), jnp.ones(2)))
    return x + v.value.c.sum() + v.value.h.sum()

x = jnp.ones((1, 4))
print('linen:', M().apply(M().init(jax.random.key(0), x), x))
model = bridge.ToNNX(M(), rngs=nnx.Rngs(0)).lazy_init(x)
try:
  print('ToNNX call:', model(x))
except Exception as e:
  print('DEFECT: call raised', type(e).__name__, ':', str(e)[:120])
  sys.exit(1)
