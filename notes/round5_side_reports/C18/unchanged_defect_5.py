"""UNCHANGED TREE. Values are not preserved for Variable types with an `on_create_value` hook:
ToLinen rebuilds the Variable with `var_type(value, **metadata)` (NNXMeta.to_nnx_variable), which
runs the creation hook again on every apply. The NNX module returns 2 forever; the ToLinen wrapper
returns 2 at init and 4 on apply with the very same stored state."""
import sys
sys.path.insert(0, '/verif/seeded'); import compat
sys.path.insert(0, sys.argv[1] if len(sys.argv) > 1 else "/repo")
import flax, jax, jax.numpy as jnp, numpy as np
from flax import linen as nn, nnx
from flax.nnx import bridge
print("flax from", flax.__file__)

class Doubled(nnx.Variable):
  def on_create_value(self, value):
    return value * 2

class N(nnx.Module):
  def __init__(self, rngs):
    self.d = Doubled(jnp.ones(3))
  def __call__(self, x):
    return x + self.d.value

x = jnp.zeros(3)
n = N(nnx.Rngs(0))
print('nnx module     :', n(x), n(x))
model = bridge.to_linen(N)
y0, variables = model.init_with_output(jax.random.key(0), x)
y1 = model.apply(variables, x)
print('ToLinen init   :', y0, ' stored value', variables['Doubled']['d'].value)
print('ToLinen apply  :', y1)
if not np.allclose(y1, n(x)):
  print('DEFECT: apply on the stored state returns', y1, 'but the NNX module with that state returns', n(x))
  sys.exit(1)
