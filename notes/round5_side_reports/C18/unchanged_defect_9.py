"""UNCHANGED TREE. Inside a bridge.compact method automatic child names are counted per class
OBJECT (`type_counter[cls]`), while Linen counts per class NAME. Two different Linen (or bridge)
classes that share a __name__ -- e.g. two `Layer`/`Block` classes from different files -- both get
`Layer_0`; the second silently replaces the first, its parameters are missing from init`s result and
apply fails. Linen names them Layer_0 and Layer_1."""
import sys
sys.path.insert(0, '/verif/seeded'); import compat
sys.path.insert(0, sys.argv[1] if len(sys.argv) > 1 else "/repo")
import flax, jax, jax.numpy as jnp, numpy as np
from flax import linen as nn, nnx
from flax.nnx import bridge
print("flax from", flax.__file__)

def make(scale):
  class Layer(nn.Module):
    @nn.compact
    def __call__(self, x):
      return x * self.param('w', lambda key: jnp.full((4,), scale))
  return Layer
A, B = make(2.0), make(3.0)

class LinenTop(nn.Module):
  @nn.compact
  def __call__(self, x):
    return B()(A()(x))

class BridgeTop(bridge.Module):
  @bridge.compact
  def __call__(self, x):
    x = bridge.linen_in_bridge_mdl(A())(x)
    return bridge.linen_in_bridge_mdl(B())(x)

x = jnp.ones((1, 4))
lv = LinenTop().init(jax.random.key(0), x)
print('linen names :', sorted(lv['params']), '->', LinenTop().apply(lv, x))
bv_ = BridgeTop().init(0, x)
print('bridge names:', sorted(bv_['params']))
try:
  print(BridgeTop().apply(bv_, x))
except Exception as e:
  print('DEFECT: only one of the two layers was kept; apply raised', type(e).__name__, ':', str(e)[:110])
  sys.exit(1)
if sorted(bv_['params']) != sorted(lv['params']):
  sys.exit(1)
