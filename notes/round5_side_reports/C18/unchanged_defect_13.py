"""UNCHANGED TREE, HISTORY dependent. ToLinen names a collection after `type(variable).__name__` and registers that
name process-wide on first use. A second NNX module that defines its own Variable class with the same name (every
model file with its own `class Count(nnx.Variable)`) cannot be wrapped any more in that process: init raises
ValueError -- and the message is the literal text "Name {name} is already registered ... {typ}" because the f-prefix
is missing in variablelib.variable_name_from_type. Each module wraps fine on its own / in the other order."""
import sys
sys.path.insert(0, '/verif/seeded'); import compat
sys.path.insert(0, sys.argv[1] if len(sys.argv) > 1 else "/repo")
import flax, jax, jax.numpy as jnp, numpy as np
from flax import linen as nn, nnx
from flax.nnx import bridge
print("flax from", flax.__file__)

def make():
  class Count(nnx.Variable):
    pass
  class Counter(nnx.Module):
    def __init__(self):
      self.count = Count(jnp.array(0))
    def __call__(self):
      self.count += 1
  return Counter

A, B = make(), make()
va = bridge.ToLinen(A, skip_rng=True).init(jax.random.key(0))
print('first module :', sorted(va))
try:
  vb = bridge.ToLinen(B, skip_rng=True).init(jax.random.key(0))
  print('second module:', sorted(vb))
except ValueError as e:
  print('DEFECT: wrapping the second module raised ValueError:', e)
  sys.exit(1)
