"""UNCHANGED TREE. An nnx.Variable may hold a pytree (dict / tuple of arrays). ToLinen stores the
whole pytree as ONE Linen variable at init, but on apply it maps every array leaf of the collection
to its own nnx Variable (tree_map over leaves in ToLinen.__call__), so the state no longer matches
the stored GraphDef: init works, apply raises."""
import sys
sys.path.insert(0, '/verif/seeded'); import compat
sys.path.insert(0, sys.argv[1] if len(sys.argv) > 1 else "/repo")
import flax, jax, jax.numpy as jnp, numpy as np
from flax import linen as nn, nnx
from flax.nnx import bridge
print("flax from", flax.__file__)

class N(nnx.Module):
  def __init__(self, rngs):
    self.stats = nnx.Param({'a': jnp.ones(2), 'b': jnp.zeros(2)})
  def __call__(self, x):
    return x + self.stats.value['a'].sum()

x = jnp.ones((1, 4))
print('nnx:', N(nnx.Rngs(0))(x))
model = bridge.to_linen(N)
y, variables = model.init_with_output(jax.random.key(0), x)
print('init_with_output:', y, jax.tree.map(jnp.shape, variables['params']))
try:
  print('apply:', model.apply(variables, x))
except Exception as e:
  print('DEFECT: apply on the variables returned by init raised', type(e).__name__, ':', str(e)[:140])
  sys.exit(1)
