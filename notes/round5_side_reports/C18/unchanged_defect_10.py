"""UNCHANGED TREE. Sharding metadata is not preserved when a ToLinen module is lifted with
nn.scan / nn.vmap and metadata_params={nn.PARTITION_NAME: ...}: NNXMeta.add_axis/remove_axis are
no-ops ("TODO"), so the stacked (3, 4, 4) kernel keeps the rank-2 sharding ("in", "out") and
nn.get_partition_spec reports P("in", "out") for a rank-3 array -- the new leading axis is sharded over
"in". The same scan over a native Linen layer with nn.with_partitioning gives ("layers", "in", "out")."""
import sys
sys.path.insert(0, '/verif/seeded'); import compat
sys.path.insert(0, sys.argv[1] if len(sys.argv) > 1 else "/repo")
import flax, jax, jax.numpy as jnp, numpy as np
from flax import linen as nn, nnx
from flax.nnx import bridge
print("flax from", flax.__file__)

class N(nnx.Module):
  def __init__(self, rngs):
    self.lin = nnx.Linear(4, 4, rngs=rngs, kernel_init=nnx.with_partitioning(
        nnx.initializers.lecun_normal(), ('in', 'out')))
  def __call__(self, c, _):
    return self.lin(c), None

class NativeCell(nn.Module):
  @nn.compact
  def __call__(self, c, _):
    return nn.Dense(4, kernel_init=nn.with_partitioning(nn.initializers.lecun_normal(), ('in', 'out')))(c), None

def stacked(cell_cls, *cell_args):
  class L(nn.Module):
    @nn.compact
    def __call__(self, x):
      S = nn.scan(cell_cls, variable_axes={'params': 0}, variable_broadcast=['nnx'],
                  split_rngs={'params': True}, length=3,
                  metadata_params={nn.PARTITION_NAME: 'layers'})
      return S(*cell_args, name='s')(x, None)[0]
  return L()

x = jnp.ones((1, 4))
native = stacked(NativeCell).init(jax.random.key(0), x)
spec_native = nn.get_partition_spec(native)['params']['s']['Dense_0']['kernel']
wrapped = stacked(bridge.ToLinen, N).init(jax.random.key(0), x)
box = wrapped['params']['s']['lin']['kernel']
spec_wrapped = nn.get_partition_spec(wrapped)['params']['s']['lin']['kernel']
print('native linen scan :', native['params']['s']['Dense_0']['kernel'].value.shape, spec_native)
print('ToLinen under scan:', box.value.shape, spec_wrapped)
if tuple(spec_wrapped) != tuple(spec_native):
  print('DEFECT: partition spec of the stacked ToLinen kernel has rank', len(spec_wrapped), 'for a rank-3 array')
  sys.exit(1)
