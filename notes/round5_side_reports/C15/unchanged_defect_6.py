"""UNCHANGED TREE (with the jax installed here, 0.11): legal dataclass field layouts that struct.dataclass /
PyTreeNode cannot handle ("every dataclass field layout"):
 (a) a field declared init=False (dataclasses.field or struct.field): struct.dataclass passes EVERY field to
     jax.tree_util.register_dataclass, which rejects init=False fields -> the class definition raises.
 (b) class A(struct.PyTreeNode, Generic[T]): PyTreeNode.__init_subclass__ never calls
     super().__init_subclass__(), so Generic's hook is skipped: A[int] raises AttributeError
     (__parameters__ missing); any cooperative mixin placed after PyTreeNode loses its hook too.
 (c) class A(struct.PyTreeNode, slots=True) raises TypeError at class creation (the decorator form works).
 (d) a class with a normalising __post_init__: tree_map(lambda x: x, obj) and obj.replace() re-run it, so
     "identity" map / empty replace return a DIFFERENT value.
usage: unchanged_defect_6.py <flax root>"""
import sys
sys.path.insert(0, '/verif/seeded'); import compat  # noqa
sys.path.insert(0, sys.argv[1])
import dataclasses
from typing import Any, Generic, TypeVar
import jax, flax
from flax import struct
print('flax from', flax.__file__, '| jax', jax.__version__)
bad = 0
def attempt(name, f):
  global bad
  try:
    r = f()
    print('ok:', name, '->', r)
  except Exception as e:
    bad += 1
    print('DEFECT:', name, 'raised', type(e).__name__ + ':', str(e).splitlines()[0][:160])

def a():
  @struct.dataclass
  class Cached:
    x: Any
    twice: Any = struct.field(init=False, default=None)
  return jax.tree_util.tree_leaves(Cached(1))
attempt('(a) struct.dataclass with an init=False field', a)

T = TypeVar('T')
def b():
  class Box(struct.PyTreeNode, Generic[T]):
    value: T
  return Box[int](1)
attempt('(b) class Box(struct.PyTreeNode, Generic[T]); Box[int](1)', b)
def b2():
  seen = []
  class Registered:
    def __init_subclass__(cls, **kw):
      seen.append(cls.__name__); super().__init_subclass__(**kw)
  class Node(struct.PyTreeNode, Registered):
    v: int
  if not seen: raise RuntimeError('mixin __init_subclass__ was never called')
  return seen
attempt('(b) cooperative mixin listed after PyTreeNode', b2)

def c():
  class P(struct.PyTreeNode, slots=True):
    v: int = 1
  return P()
attempt('(c) class P(struct.PyTreeNode, slots=True)', c)

@struct.dataclass
class Counter:
  n: Any
  def __post_init__(self):
    object.__setattr__(self, 'n', self.n + 1)
c0 = Counter(0)
same = jax.tree_util.tree_map(lambda v: v, c0)
if same != c0 or c0.replace() != c0:
  bad += 1
  print('DEFECT: (d) identity tree_map / empty replace changed the value:', c0, '->', same, '/', c0.replace())
print('%d defect(s) shown' % bad if bad else 'no defect observed')
