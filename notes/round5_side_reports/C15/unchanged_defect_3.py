"""UNCHANGED TREE: pytree flattening hands out the FrozenDict's INTERNAL mutable nested dicts.
tree_flatten_with_keys() returns self._dict[k] raw; nested levels are plain dicts, so
  * jax.tree_util.tree_leaves / tree_map(..., is_leaf=lambda x: isinstance(x, dict)),
  * tree_map(f, prefix_tree, fd) where prefix_tree stops above a nested dict of fd (the usual "prefix tree"
    pattern for masks / sharding specs), and
  * the public method fd.tree_flatten_with_keys()
all give the caller the very dict objects the FrozenDict is made of (type dict, not FrozenDict).
Mutating them changes the FrozenDict in place and leaves the cached hash stale.
usage: unchanged_defect_3.py <flax root>"""
import sys
sys.path.insert(0, '/verif/seeded'); import compat  # noqa
sys.path.insert(0, sys.argv[1])
import jax, flax
from flax.core import FrozenDict, freeze, unfreeze
print('flax from', flax.__file__)
bad = 0

def fresh():
  return freeze({'params': {'dense': {'kernel': 1}}, 'batch_stats': {'mean': 0}})

fd = fresh(); h = hash(fd); snap = unfreeze(fd)
leaves = jax.tree_util.tree_leaves(fd, is_leaf=lambda x: isinstance(x, dict))
print('is_leaf leaves have type', type(leaves[0]).__name__)
leaves[0]['mean'] = 'MUTATED'
if unfreeze(fd) != snap:
  bad += 1
  print('DEFECT (is_leaf): FrozenDict mutated in place:', unfreeze(fd),
        '| cached hash stale:', hash(fd) == h != hash(freeze(unfreeze(fd))))

fd = fresh(); snap = unfreeze(fd)
mask = freeze({'params': True, 'batch_stats': False})            # prefix tree
seen = []
jax.tree_util.tree_map(lambda m, sub: seen.append(sub), mask, fd)
print('prefix tree_map passes sub-trees of type', type(seen[0]).__name__)
seen[1]['dense']['kernel'] = 'MUTATED'
if unfreeze(fd) != snap:
  bad += 1
  print('DEFECT (prefix tree_map): FrozenDict mutated in place:', unfreeze(fd))

fd = fresh(); snap = unfreeze(fd)
children, _ = fd.tree_flatten_with_keys()
children[0][1]['mean'] = 'MUTATED'
if unfreeze(fd) != snap:
  bad += 1
  print('DEFECT (tree_flatten_with_keys): FrozenDict mutated in place:', unfreeze(fd))

print('%d defect(s) shown' % bad if bad else 'no defect observed')
