"""UNCHANGED TREE: static (pytree_node=False) fields of a struct.dataclass travel in the treedef and are
compared with == / hash.  Values that are == but NOT interchangeable (0.0 / -0.0, 2 / 2.0, 1 / True) give
equal treedefs, so
  * changing such a static field does NOT force a retrace: a jitted function silently reuses the trace made
    for the other value and returns a numerically different result (inf instead of -inf, int32 instead of
    float32),
  * jit / tree_map "reconstruct" the instance with the static field of the FIRST call (True comes back
    as 1, -0.0 as 0.0),
  * tree_map(f, a, b) accepts two instances whose static fields differ in that way.
Clauses violated: "static treedef ... force a retrace when changed", "reconstruct the same class with the same
static fields".
usage: unchanged_defect_5.py <flax root>"""
import sys
sys.path.insert(0, '/verif/seeded'); import compat  # noqa
sys.path.insert(0, sys.argv[1])
from typing import Any
import jax, jax.numpy as jnp, flax
from flax import struct
print('flax from', flax.__file__)
bad = 0

@struct.dataclass
class Scaled:
  x: Any
  denom: Any = struct.field(pytree_node=False)

traces = []
@jax.jit
def apply(s):
  traces.append(s.denom)
  return s.x / s.denom

one = jnp.ones(())
r_pos = apply(Scaled(one, 0.0))
r_neg = apply(Scaled(one, -0.0))          # static field changed -> must retrace -> -inf
print('1/0.0 =', r_pos, ' 1/-0.0 =', r_neg, ' eager:', one / -0.0, ' traces:', traces)
if not (r_neg == one / -0.0):
  bad += 1
  print('DEFECT: static field changed 0.0 -> -0.0, no retrace, wrong result', r_neg)

mul = jax.jit(lambda s: s.x * s.denom)
ints = jnp.arange(3)
d1, d2 = mul(Scaled(ints, 2)).dtype, mul(Scaled(ints, 2.0)).dtype
if d2 != (ints * 2.0).dtype:
  bad += 1
  print('DEFECT: static field changed 2 -> 2.0, no retrace, result dtype', d2, 'instead of', (ints * 2.0).dtype)

ident = jax.jit(lambda s: s)
ident(Scaled(one, 1))
out = ident(Scaled(one, True))
if out.denom is not True:
  bad += 1
  print('DEFECT: jit identity returned static field', repr(out.denom), 'for an input whose static field is True')
m = jax.tree_util.tree_map(lambda a, b: b, Scaled(one, 1), Scaled(one, True))
if m.denom is not True:
  print('note: tree_map(lambda a, b: b, S(static=1), S(static=True)) is accepted and yields static', repr(m.denom))
print('%d defect(s) shown' % bad if bad else 'no defect observed')
