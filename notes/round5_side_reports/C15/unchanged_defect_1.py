"""UNCHANGED TREE: FrozenDict copies nested dicts only when they are reachable through dicts.
A list / tuple value is kept BY REFERENCE (and so is every dict inside it), so
 (a) mutating the source object after freeze() changes the FrozenDict,
 (b) indexing / iterating hands out that same mutable list and its mutable inner dicts,
 (c) FrozenDict(fd) / fd.copy() / fd.pop() results share it as well.
Clause violated: "never changes after construction ... shares no mutable nested dict with the object it
was built from or with anything it returns", quantified over "any mix of dict/FrozenDict/list/tuple".
usage: unchanged_defect_1.py <flax root>"""
import sys
sys.path.insert(0, '/verif/seeded'); import compat  # noqa
sys.path.insert(0, sys.argv[1])
import flax
from flax.core import FrozenDict, freeze, unfreeze
print('flax from', flax.__file__)
bad = 0

src = {'layers': [{'w': 1}, {'w': 2}], 'shape': ({'n': 3},)}
fd = freeze(src)
snapshot = unfreeze(fd)                     # deep copy of the content at construction time
src['layers'][0]['w'] = 100                 # (a) mutate the SOURCE after freezing
src['layers'].append({'w': 3})
if unfreeze(fd) != snapshot:
  bad += 1
  print('DEFECT (a): FrozenDict changed after its source was mutated:', unfreeze(fd))

fd = freeze({'layers': [{'w': 1}], 'shape': ({'n': 3},)})
snapshot = unfreeze(fd)
fd['shape'][0]['n'] = -1                    # (b) mutate what indexing returned (tuple -> inner dict)
for v in fd.values():                       #     ... and what iteration returned
  if isinstance(v, list):
    v.append('junk')
if unfreeze(fd) != snapshot:
  bad += 1
  print('DEFECT (b): FrozenDict changed through values returned by [] / values():', unfreeze(fd))

fd = freeze({'layers': [{'w': 1}]})
c = fd.copy({'x': 1})
c2 = FrozenDict(fd)
rest, popped = fd.copy({'x': 0}).pop('x')
before = (unfreeze(fd), unfreeze(c2), unfreeze(rest))
c['layers'][0]['w'] = 7                     # (c) mutate through the copy
after = (unfreeze(fd), unfreeze(c2), unfreeze(rest))
if before != after:
  bad += 1
  print('DEFECT (c): mutation through fd.copy() result is visible in fd, FrozenDict(fd) and pop() result:', after)

print('%d defect(s) shown' % bad if bad else 'no defect observed')
