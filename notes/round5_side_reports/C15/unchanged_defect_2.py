"""UNCHANGED TREE: FrozenDict.tree_unflatten skips the defensive copy ("data is already deep copied due to
tree map mechanism") -- but the leaves handed to unflatten are whatever the caller / map function supplies.
If they are dicts, the new FrozenDict keeps the CALLER'S dict objects:
  * tree_map(lambda x: some_dict, fd), tree_unflatten(treedef, [dict, ...]), tree_transpose ... give a
    FrozenDict that changes when the caller's dict is mutated; its cached hash goes stale, so it is == to
    another FrozenDict but hashes differently.
  * if the map function returns FrozenDicts, they are stored raw and unfreeze() returns a "plain dict"
    that still contains FrozenDict objects.
usage: unchanged_defect_2.py <flax root>"""
import sys
sys.path.insert(0, '/verif/seeded'); import compat  # noqa
sys.path.insert(0, sys.argv[1])
import jax, flax
from flax.core import FrozenDict, freeze, unfreeze
print('flax from', flax.__file__)
bad = 0

params = freeze({'kernel': 1.0, 'bias': 2.0})
slot = {'mu': 0.0, 'nu': 0.0}                                  # e.g. per-parameter optimizer slots
state = jax.tree_util.tree_map(lambda p: slot, params)          # -> FrozenDict of dicts
h = hash(state)
snapshot = unfreeze(state)
slot['mu'] = 9.0                                                # caller mutates its own dict later
if unfreeze(state) != snapshot:
  bad += 1
  print('DEFECT: FrozenDict built by tree_map changed after construction:', unfreeze(state))
twin = freeze(unfreeze(state))
if state == twin and hash(state) != hash(twin):
  bad += 1
  print('DEFECT: equal FrozenDicts with different hashes (stale cached hash): ', hash(state), hash(twin))

treedef = jax.tree_util.tree_structure(params)
leaf = {'n': 1}
rebuilt = jax.tree_util.tree_unflatten(treedef, [leaf, leaf])
leaf['n'] = 2
if rebuilt['bias']['n'] != 1:
  bad += 1
  print('DEFECT: tree_unflatten kept the caller\'s dict by reference:', unfreeze(rebuilt))

wrapped = jax.tree_util.tree_map(lambda p: FrozenDict({'mu': p}), params)
u = unfreeze(wrapped)
if any(isinstance(v, FrozenDict) for v in u.values()):
  bad += 1
  print('DEFECT: unfreeze() result still contains FrozenDict values:', {k: type(v).__name__ for k, v in u.items()})

print('%d defect(s) shown' % bad if bad else 'no defect observed')
