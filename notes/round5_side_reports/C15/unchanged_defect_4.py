"""UNCHANGED TREE: a FrozenDict whose (nested) keys are not mutually sortable (e.g. int and str, or None and
str -- perfectly legal dict keys) can be constructed, compared, hashed, indexed, popped and .copy()'d, but
unfreeze(), FrozenDict.unfreeze(), pickle, copy.copy and copy.deepcopy all raise, because the FrozenDict
branch of unfreeze() deep-copies with jax.tree_util.tree_map (which sorts dict keys) and __reduce__ uses
unfreeze().  The plain-dict branch of unfreeze() handles the same content fine.
Clause violated: "pickling ... returns an equal value" / unfreeze returns a copy, for every nested dict.
usage: unchanged_defect_4.py <flax root>"""
import sys
sys.path.insert(0, '/verif/seeded'); import compat  # noqa
sys.path.insert(0, sys.argv[1])
import copy, pickle, flax
from flax.core import FrozenDict, freeze, unfreeze
print('flax from', flax.__file__)
bad = 0
content = {'layers': {0: 'a', 'head': 'b'}}
fd = freeze(content)
print('construct/eq/hash/index/pop/copy work:', fd == freeze(content), hash(fd) == hash(freeze(content)),
      fd['layers'][0], fd.pop('layers')[1] == content['layers'], fd.copy({'x': 1})['x'])
print('unfreeze(plain dict) works:', unfreeze(content))
for name, f in [('unfreeze(fd)', lambda: unfreeze(fd)), ('pickle round trip', lambda: pickle.loads(pickle.dumps(fd))),
                ('copy.copy(fd)', lambda: copy.copy(fd)), ('copy.deepcopy(fd)', lambda: copy.deepcopy(fd))]:
  try:
    out = f()
    print(name, 'ok', out == fd or out == content)
  except Exception as e:
    bad += 1
    print('DEFECT:', name, 'raised', type(e).__name__ + ':', str(e).splitlines()[0])
print('%d defect(s) shown' % bad if bad else 'no defect observed')
