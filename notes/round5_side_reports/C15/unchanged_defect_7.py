"""UNCHANGED TREE, smaller observations around "no API mutates it" / "returns an equal value":
 (a) FrozenDict.__init__ can be called again on a live instance: it replaces the content in place and resets
     nothing else a holder could notice (the object keeps its identity; dict/set entries keyed by it go stale).
 (b) a FrozenDict SUBCLASS loses its class on indexing (nested values come back as plain FrozenDict), on
     pickle / copy.copy / copy.deepcopy (__reduce__ hard-codes FrozenDict) while copy()/pop()/tree_map keep it.
 (c) flax.core.copy(plain_dict, add_or_replace) ("mimics FrozenDict.copy") deep-copies x but stores the
     values of add_or_replace by reference: the returned dict shares nested dicts with add_or_replace.
usage: unchanged_defect_7.py <flax root>"""
import sys
sys.path.insert(0, '/verif/seeded'); import compat  # noqa
sys.path.insert(0, sys.argv[1])
import copy, pickle, jax, flax, flax.core
from flax.core import FrozenDict, freeze, unfreeze
print('flax from', flax.__file__)
bad = 0
fd = freeze({'a': 1}); table = {fd: 'entry'}
fd.__init__({'z': 2})
if unfreeze(fd) != {'a': 1}:
  bad += 1
  print('DEFECT (a): fd.__init__(...) mutated a live FrozenDict:', unfreeze(fd), '| lookup by equal key now',
        table.get(freeze({'a': 1})), '/', table.get(freeze({'z': 2})))

class Params(FrozenDict):
  pass
p = Params({'a': {'b': 1}})
kinds = {'index': type(p['a']).__name__, 'pickle': type(pickle.loads(pickle.dumps(p))).__name__,
         'copy.copy': type(copy.copy(p)).__name__, '.copy()': type(p.copy({})).__name__,
         'tree_map': type(jax.tree_util.tree_map(lambda x: x, p)).__name__}
if len(set(kinds.values())) > 1:
  bad += 1
  print('DEFECT (b): subclass not preserved consistently:', kinds)

extra = {'stats': {'mean': 0}}
out = flax.core.copy({'params': {'w': 1}}, extra)
extra['stats']['mean'] = 5
if out['stats']['mean'] != 0:
  bad += 1
  print('DEFECT (c): flax.core.copy(dict, add_or_replace) shares nested dicts with add_or_replace:', out)
print('%d defect(s) shown' % bad if bad else 'no defect observed')
